module verif

go 1.23

require (
	github.com/getkin/kin-openapi v0.38.0
	golang.org/x/tools v0.23.0
	gopkg.in/yaml.v3 v3.0.0-20200313102051-9f266ea9e77c
)

require (
	golang.org/x/mod v0.19.0 // indirect
	golang.org/x/sync v0.7.0 // indirect
)
