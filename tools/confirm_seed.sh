#!/bin/bash
# confirm_seed.sh <cNN[b]> <label> [PROP] [neg]: confirm a sub-agent's seeded change in its scratch worktree and store it under /verif/seeded/
# PROP overrides the property derived from the worktree name; "neg" = property-preserving change (demo must pass with and without it)
export GOFLAGS=-mod=mod GOPROXY=off GOSUMDB=off GOTOOLCHAIN=local
p=$1; label=$2; P=$(echo ${p:0:3} | tr a-z A-Z); wt=/tmp/wt-$p; sd=/tmp/seed-$p
neg=""; for a in "$3" "$4"; do case "$a" in neg) neg=1;; C[0-9][0-9]) P=$a;; esac; done
lp=$(echo $P | tr A-Z a-z); [ "${p:3}" = b ] && [ "$lp" = "${p:0:3}" ] && lp=$p
cd $wt || exit 2
echo "=== $p changed files: $(git status --short | tr '\n' ' ')"
git diff > /tmp/seed-$p/patch.confirm.diff
go build ./... || { echo BUILD-FAIL; exit 1; }
nok=$(go test -vet=off -count=1 ./... 2>&1 | grep -c "^ok")
nfail=$(go test -vet=off -count=1 ./... 2>&1 | grep -c "^FAIL\|^---")
bash $sd/demo/run.sh $wt > $sd/with.log 2>&1; w=$?
git checkout -q -- .; bash $sd/demo/run.sh $wt > $sd/without.log 2>&1; wo=$?; git checkout -q -- .; git apply /tmp/seed-$p/patch.confirm.diff
git status --short | grep -v "^ M" | head
echo "tests ok=$nok fail=$nfail; demo with change exit=$w; without exit=$wo"
if [ -n "$neg" ]; then
  if [ "$nfail" != 0 ] || [ $w != 0 ] || [ $wo != 0 ]; then echo "NOT CONFIRMED"; exit 1; fi
  label=$label-neg
else
  if [ "$nfail" != 0 ] || [ $w = 0 ] || [ $wo != 0 ]; then echo "NOT CONFIRMED"; exit 1; fi
fi
d=/verif/seeded/$label-$lp; mkdir -p $d; cp $sd/patch.confirm.diff $d/patch.diff; rm -rf $d/demo; cp -r $sd/demo $d/demo; rm -rf $d/demo/gen
python3 - <<PY
import json
m=json.load(open('$sd/meta.json'))
out={"property":"$P","what":m.get("what"),"needs":m.get("needs"),
 **({"expect":"holds","why_it_still_holds":m.get("why_it_still_holds")} if "$neg" else {}),"source":"sub-agent ($label), given only the property text and a scratch worktree","agent_ran":m.get("ran"),
 "confirmed":"in scratch worktree $wt (HEAD $(git -C $wt rev-parse --short HEAD)): go build ./... ok; go test -vet=off -count=1 ./... $nok packages ok, 0 failing, with the change; demo/run.sh exit $w with the change, exit $wo after git checkout -- ."}
json.dump(out,open('$d/meta.json','w'),indent=1)
PY
echo "CONFIRMED -> $d"
