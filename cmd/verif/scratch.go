package main

import (
	"bytes"
	"crypto/sha256"
	"encoding/hex"
	"fmt"
	"io"
	"io/fs"
	"os"
	"os/exec"
	"path/filepath"
	"runtime"
	"sort"
	"strings"
)

// repoDir is the tree under verification: /repo, unless VERIF_REPO points at a scratch
// copy with a deliberately broken change applied (sensitivity self-test only).
var repoDir = func() string {
	if d := os.Getenv("VERIF_REPO"); d != "" {
		return d
	}
	return "/repo"
}()

var verifDir = func() string {
	if d := os.Getenv("VERIF_DIR"); d != "" {
		return d
	}
	if wd, err := os.Getwd(); err == nil {
		if _, err := os.Stat(filepath.Join(wd, "simsrc")); err == nil {
			return wd
		}
	}
	return "/verif"
}()

type harnessError struct{ err error }

// die2 reports build trouble / harness inconsistency: exit 2, never a VIOLATION.
func die2(format string, a ...any) {
	fmt.Fprintf(os.Stderr, "verif: HARNESS ERROR (exit 2): "+format+"\n", a...)
	cleanupScratch()
	os.Exit(2)
}

var scratchRoot string

func newScratch() string {
	base := os.Getenv("VERIF_SCRATCH")
	if base == "" {
		base = "/var/tmp"
	}
	d, err := os.MkdirTemp(base, "verif.")
	if err != nil {
		die2("scratch: %v", err)
	}
	scratchRoot = d
	return d
}

func cleanupScratch() {
	if scratchRoot != "" && os.Getenv("VERIF_KEEP_SCRATCH") == "" {
		os.RemoveAll(scratchRoot)
	}
}

func goEnv() []string {
	env := os.Environ()
	env = append(env, "GOFLAGS=-mod=mod", "GOPROXY=off", "GOSUMDB=off", "GOTOOLCHAIN=local", "TEMPLATE_DEBUG=")
	return env
}

func run(dir string, env []string, name string, args ...string) (string, error) {
	cmd := exec.Command(name, args...)
	cmd.Dir = dir
	cmd.Env = env
	var out bytes.Buffer
	cmd.Stdout = &out
	cmd.Stderr = &out
	err := cmd.Run()
	return out.String(), err
}

// copyTree copies src to dst, skipping the named top-level entries.
func copyTree(src, dst string, skipTop map[string]bool) error {
	return filepath.WalkDir(src, func(p string, d fs.DirEntry, err error) error {
		if err != nil {
			return err
		}
		rel, _ := filepath.Rel(src, p)
		if rel == "." {
			return os.MkdirAll(dst, 0o755)
		}
		top := strings.Split(rel, string(filepath.Separator))[0]
		if skipTop[top] {
			if d.IsDir() {
				return filepath.SkipDir
			}
			return nil
		}
		target := filepath.Join(dst, rel)
		if d.IsDir() {
			return os.MkdirAll(target, 0o755)
		}
		if !d.Type().IsRegular() {
			return nil
		}
		in, err := os.Open(p)
		if err != nil {
			return err
		}
		defer in.Close()
		out, err := os.Create(target)
		if err != nil {
			return err
		}
		if _, err := io.Copy(out, in); err != nil {
			out.Close()
			return err
		}
		return out.Close()
	})
}

// treeHash hashes the contents of the files that matter for a build.
func treeHash(dir string, skipTop map[string]bool) string {
	h := sha256.New()
	var files []string
	filepath.WalkDir(dir, func(p string, d fs.DirEntry, err error) error {
		if err != nil {
			return nil
		}
		rel, _ := filepath.Rel(dir, p)
		top := strings.Split(rel, string(filepath.Separator))[0]
		if skipTop[top] {
			if d.IsDir() {
				return filepath.SkipDir
			}
			return nil
		}
		if d.Type().IsRegular() {
			files = append(files, p)
		}
		return nil
	})
	sort.Strings(files)
	for _, f := range files {
		b, _ := os.ReadFile(f)
		rel, _ := filepath.Rel(dir, f)
		fmt.Fprintf(h, "%s\x00%d\x00", rel, len(b))
		h.Write(b)
	}
	return hex.EncodeToString(h.Sum(nil)[:12])
}

func nproc() int {
	n := runtime.NumCPU()
	if n > 16 {
		n = 16
	}
	if n < 1 {
		n = 1
	}
	return n
}

var repoSkip = map[string]bool{".git": true, "tests": true, "examples": true}

// installRT copies /verif/simsrc into <repoCopy>/verifrt as a nested module whose
// main-module replace points at the rewritten copy.
func installRT(repoCopy string) string {
	rt := filepath.Join(repoCopy, "verifrt")
	if err := copyTree(filepath.Join(verifDir, "simsrc"), rt, map[string]bool{"go.mod": true, "go.sum": true}); err != nil {
		die2("copy simsrc: %v", err)
	}
	gomod := "module github.com/vkd/goag/verifrt\n\ngo 1.23\n\nrequire github.com/vkd/goag v0.0.0\n\nreplace github.com/vkd/goag => ../\n"
	if err := os.WriteFile(filepath.Join(rt, "go.mod"), []byte(gomod), 0o644); err != nil {
		die2("%v", err)
	}
	sum, err := os.ReadFile(filepath.Join(repoDir, "go.sum"))
	if err != nil {
		die2("%v", err)
	}
	os.WriteFile(filepath.Join(rt, "go.sum"), sum, 0o644)
	return rt
}
