package main

import (
	"bufio"
	"encoding/json"
	"fmt"
	"os"
	"path/filepath"
	"sort"
	"strings"
	"sync"
	"time"
)

// ---- corpus -----------------------------------------------------------------------------------

type CorpusEntry struct {
	Name      string `json:"name"`
	Class     string `json:"class"`
	Spec      string `json:"spec"`
	SpecName  string `json:"spec_name"`
	HasConfig bool   `json:"has_config"`
	Config    string `json:"config"`
	Dir       string `json:"-"` // source directory (for pkg/ helpers)
}

func loadCorpusDir(dir, class string) []CorpusEntry {
	des, err := os.ReadDir(dir)
	if err != nil {
		die2("corpus %s: %v", dir, err)
	}
	var out []CorpusEntry
	for _, d := range des {
		if !d.IsDir() {
			continue
		}
		p := filepath.Join(dir, d.Name())
		spec, err := os.ReadFile(filepath.Join(p, "openapi.yaml"))
		if err != nil {
			continue
		}
		e := CorpusEntry{Name: d.Name(), Class: class, Spec: string(spec), SpecName: "openapi.yaml", Dir: p}
		if strings.HasPrefix(d.Name(), "h_") {
			e.Class = "H"
		} else if strings.HasPrefix(d.Name(), "m_") {
			e.Class = "M"
		} else if strings.HasPrefix(d.Name(), "k_") {
			e.Class = "K"
		}
		if cfg, err := os.ReadFile(filepath.Join(p, ".goag.yaml")); err == nil {
			e.HasConfig, e.Config = true, string(cfg)
		}
		out = append(out, e)
	}
	sort.Slice(out, func(i, j int) bool { return out[i].Name < out[j].Name })
	return out
}

// ---- known findings -----------------------------------------------------------------------------

type knownFinding struct {
	Property, Key, Text string
}

func loadKnown() []knownFinding {
	f, err := os.Open(filepath.Join(verifDir, "KNOWN_FINDINGS.txt"))
	if err != nil {
		return nil
	}
	defer f.Close()
	var out []knownFinding
	sc := bufio.NewScanner(f)
	for sc.Scan() {
		line := strings.TrimSpace(sc.Text())
		if !strings.HasPrefix(line, "known:") {
			continue // "fixed:" lines and comments suppress nothing
		}
		rest := strings.TrimSpace(strings.TrimPrefix(line, "known:"))
		var k knownFinding
		fields := strings.Fields(rest)
		n := 0
		for _, fl := range fields {
			if strings.HasPrefix(fl, "property=") {
				k.Property = strings.TrimPrefix(fl, "property=")
				n++
			} else if strings.HasPrefix(fl, "key=") {
				k.Key = strings.TrimPrefix(fl, "key=")
				n++
			} else {
				break
			}
		}
		k.Text = strings.Join(fields[n:], " ")
		if k.Property != "" && k.Key != "" {
			out = append(out, k)
		}
	}
	return out
}

func knownKeys(prop string) map[string]string {
	m := map[string]string{}
	for _, k := range loadKnown() {
		if k.Property == prop {
			m[k.Key] = k.Text
		}
	}
	return m
}

// ---- evidence -----------------------------------------------------------------------------------

type Evidence struct {
	PropertyID  string         `json:"property_id"`
	Tier        string         `json:"tier"`
	Seed        int64          `json:"seed"`
	Level       string         `json:"level"`
	Coverage    map[string]any `json:"coverage"`
	Assumptions []string       `json:"assumptions"`
	WallS       float64        `json:"wall_s"`
	Violations  int            `json:"violations"`
}

func writeEvidence(ev *Evidence) {
	dir := evidenceDir()
	os.MkdirAll(dir, 0o755)
	b, _ := json.MarshalIndent(ev, "", " ")
	if err := os.WriteFile(filepath.Join(dir, ev.PropertyID+".json"), append(b, '\n'), 0o644); err != nil {
		die2("write evidence: %v", err)
	}
}

// ---- worker pool ----------------------------------------------------------------------------------

type workerRun struct {
	JobFile, OutFile string
	Env              []string
}

func runWorkers(bin string, jobs []workerRun, timeout time.Duration) []error {
	errs := make([]error, len(jobs))
	var wg sync.WaitGroup
	sem := make(chan struct{}, nproc())
	for i := range jobs {
		wg.Add(1)
		go func(i int) {
			defer wg.Done()
			sem <- struct{}{}
			defer func() { <-sem }()
			args := []string{fmt.Sprint(int(timeout.Seconds())), bin, jobs[i].JobFile}
			out, err := run("", append(goEnv(), jobs[i].Env...), "timeout", args...)
			if err != nil {
				errs[i] = fmt.Errorf("worker %d: %v\n%s", i, err, tail(out, 4000))
			}
		}(i)
	}
	wg.Wait()
	return errs
}

func tail(s string, n int) string {
	if len(s) > n {
		return "…" + s[len(s)-n:]
	}
	return s
}

func writeJSON(path string, v any) {
	b, err := json.Marshal(v)
	if err != nil {
		die2("%v", err)
	}
	if err := os.WriteFile(path, b, 0o644); err != nil {
		die2("%v", err)
	}
}

func readJSON(path string, v any) error {
	b, err := os.ReadFile(path)
	if err != nil {
		return err
	}
	return json.Unmarshal(b, v)
}

func sortedKeysOf[V any](m map[string]V) []string {
	ks := make([]string, 0, len(m))
	for k := range m {
		ks = append(ks, k)
	}
	sort.Strings(ks)
	return ks
}

func evidenceDir() string {
	if d := os.Getenv("VERIF_EVIDENCE_DIR"); d != "" {
		return d
	}
	return filepath.Join(verifDir, "evidence")
}

func replayDir() string {
	if d := os.Getenv("VERIF_REPLAY_DIR"); d != "" {
		return d
	}
	return filepath.Join(verifDir, "replays")
}
