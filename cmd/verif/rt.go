package main

import (
	"crypto/sha256"
	"encoding/hex"
	"encoding/json"
	"fmt"
	"os"
	"path/filepath"
	"regexp"
	"sort"
	"strconv"
	"strings"
	"time"

	"verif/internal/instr"
)

type rtPkgMeta struct {
	Name     string `json:"name"`
	Class    string `json:"class"`
	BasePath string `json:"base_path_flag"`
	// Base is the base path the generated router serves under, read from the generated router itself
	// (never re-derived from the spec): the literal in `path == "<base>/openapi.yaml"`.
	Base string `json:"base"`
}

var specRouteRe = regexp.MustCompile(`SpecFileHandler != nil && path == "([^"]*)/openapi\.yaml"`)

type rtBuild struct {
	Scratch     string
	Bin         string
	Reports     []*instr.RTPkgReport
	Metas       map[string]rtPkgMeta
	Unbuildable map[string]string
	BuildS      float64
	TreeHash    string
	Cached      bool
	CorpusN     int
}

type rtCacheMeta struct {
	Reports     []*instr.RTPkgReport `json:"reports"`
	Metas       map[string]rtPkgMeta `json:"metas"`
	Unbuildable map[string]string    `json:"unbuildable"`
	BuildS      float64              `json:"build_s"`
	TreeHash    string               `json:"tree_hash"`
	CorpusN     int                  `json:"corpus_n"`
}

var identRe = regexp.MustCompile(`[^a-zA-Z0-9_]`)

func rtCorpus() []CorpusEntry {
	var out []CorpusEntry
	for _, c := range genCorpus(false) {
		if strings.Contains(c.Config, "github.com/vkd/goag/tests/") || strings.Contains(c.Spec, "github.com/vkd/goag/tests/") {
			continue // needs hand-written helper packages from /repo/tests
		}
		out = append(out, c)
	}
	return out
}

func corpusHash(c []CorpusEntry) string {
	h := sha256.New()
	for _, e := range c {
		fmt.Fprintf(h, "%s\x00%s\x00%s\x00%v\x00", e.Name, e.Spec, e.Config, e.HasConfig)
	}
	return hex.EncodeToString(h.Sum(nil)[:6])
}

func cacheDir() string {
	if d := os.Getenv("VERIF_CACHE"); d != "" {
		return d
	}
	return "/var/tmp/verif-cache"
}

func pruneCache(keep int) {
	des, err := os.ReadDir(cacheDir())
	if err != nil {
		return
	}
	type ent struct {
		name string
		mod  time.Time
	}
	var es []ent
	for _, d := range des {
		// only the worker builds are pruned here: the Go build cache next to them (gocache, kept small by ownGoCache)
		// may be in use by another verif process, and removing it under a running build ends that check with exit 2
		if fi, err := d.Info(); err == nil && d.IsDir() && strings.HasPrefix(d.Name(), "rt-") {
			es = append(es, ent{d.Name(), fi.ModTime()})
		}
	}
	sort.Slice(es, func(i, j int) bool { return es[i].mod.After(es[j].mod) })
	for i := keep; i < len(es); i++ {
		os.RemoveAll(filepath.Join(cacheDir(), es[i].name))
	}
}

// prepareRT generates the corpus packages with the current tree's goag, instruments them and builds the rtsim worker.
func prepareRT(scratch string) *rtBuild {
	t0 := time.Now()
	corpus := rtCorpus()
	repoHash := treeHash(repoDir, repoSkip)
	key := repoHash + "-" + treeHash(filepath.Join(verifDir, "rtsrc"), nil)[:10] + "-" + treeHash(filepath.Join(verifDir, "internal"), nil)[:10] + "-" + corpusHash(corpus)
	cdir := filepath.Join(cacheDir(), "rt-"+key)
	if os.Getenv("VERIF_NO_CACHE") == "" {
		var meta rtCacheMeta
		if err := readJSON(filepath.Join(cdir, "meta.json"), &meta); err == nil {
			if _, err := os.Stat(filepath.Join(cdir, "rtsim")); err == nil {
				now := time.Now()
				os.Chtimes(cdir, now, now)
				// run a private copy: a concurrent check may prune the cache entry
				local := filepath.Join(scratch, "rtsim-cached")
				data, rerr := os.ReadFile(filepath.Join(cdir, "rtsim"))
				if rerr != nil || os.WriteFile(local, data, 0o755) != nil {
					goto rebuild
				}
				return &rtBuild{Scratch: scratch, Bin: local, Reports: meta.Reports, Metas: meta.Metas, Unbuildable: meta.Unbuildable,
					BuildS: meta.BuildS, TreeHash: meta.TreeHash, Cached: true, CorpusN: meta.CorpusN}
			}
		}
	}
rebuild:
	b := &rtBuild{Scratch: scratch, Metas: map[string]rtPkgMeta{}, Unbuildable: map[string]string{}, TreeHash: repoHash, CorpusN: len(corpus)}
	repoCopy := filepath.Join(scratch, "repo")
	if err := copyTree(repoDir, repoCopy, repoSkip); err != nil {
		die2("copy /repo: %v", err)
	}
	bin := filepath.Join(scratch, "bin")
	os.MkdirAll(bin, 0o755)
	goag := filepath.Join(bin, "goag")
	if out, err := run(repoCopy, goEnv(), "go", "build", "-o", goag, "./cmd/goag"); err != nil {
		die2("build cmd/goag from the current tree failed:\n%s", tail(out, 6000))
	}
	simDir := filepath.Join(scratch, "sim")
	if err := copyTree(filepath.Join(verifDir, "rtsrc"), simDir, nil); err != nil {
		die2("copy rtsrc: %v", err)
	}
	specs := map[string]CorpusEntry{}
	for _, c := range corpus {
		name := "p_" + identRe.ReplaceAllString(c.Name, "_")
		in := filepath.Join(scratch, "specs", name)
		os.MkdirAll(in, 0o755)
		os.WriteFile(filepath.Join(in, "openapi.yaml"), []byte(c.Spec), 0o644)
		if c.HasConfig {
			os.WriteFile(filepath.Join(in, ".goag.yaml"), []byte(c.Config), 0o644)
		}
		out := filepath.Join(simDir, "gen", name)
		args := []string{"-file", filepath.Join(in, "openapi.yaml"), "-out", out, "-package", name, "-client=true", "-config", filepath.Join(in, ".goag.yaml"), "-donotedit=false"}
		meta := rtPkgMeta{Name: name, Class: c.Class}
		if bp := basePathFlagFor(c); bp != "" {
			args = append(args, "-basepath", bp)
			meta.BasePath = bp
		}
		if o, err := run(in, goEnv(), goag, args...); err != nil {
			b.Unbuildable[name] = "generation failed: " + firstLineOf(o)
			os.RemoveAll(out)
			continue
		}
		if rb, err := os.ReadFile(filepath.Join(out, "router.go")); err == nil {
			if m := specRouteRe.FindSubmatch(rb); m != nil {
				meta.Base = string(m[1])
			}
		}
		specs[name] = c
		b.Metas[name] = meta
	}
	// drop packages that do not compile on this tree (C01's business, counted here)
	for round := 0; round < 6; round++ {
		out, err := run(simDir, goEnv(), "go", "build", "./gen/...")
		if err == nil {
			break
		}
		bad := map[string]string{}
		cur := ""
		for _, line := range strings.Split(out, "\n") {
			if strings.HasPrefix(line, "# verifsim/gen/") {
				cur = strings.TrimSpace(strings.TrimPrefix(line, "# verifsim/gen/"))
				continue
			}
			if m := regexp.MustCompile(`^gen/([^/]+)/`).FindStringSubmatch(line); m != nil {
				cur = m[1]
			}
			if cur != "" && strings.TrimSpace(line) != "" && bad[cur] == "" {
				bad[cur] = strings.TrimSpace(line)
			}
		}
		if len(bad) == 0 {
			die2("go build of generated packages failed in an unexpected way:\n%s", tail(out, 4000))
		}
		for n, why := range bad {
			b.Unbuildable[n] = "does not compile: " + why
			delete(b.Metas, n)
			os.RemoveAll(filepath.Join(simDir, "gen", n))
		}
	}
	if len(b.Metas) == 0 || len(b.Unbuildable)*2 > len(corpus) {
		die2("more than half of the corpus does not generate/compile on this tree (%d of %d): %v", len(b.Unbuildable), len(corpus), b.Unbuildable)
	}
	reps, err := instr.InstrumentGenerated(simDir, "./gen/...")
	if err != nil {
		die2("instrument generated packages: %v", err)
	}
	b.Reports = reps
	// registry glue
	var sb strings.Builder
	sb.WriteString("package main\n\nimport (\n\t\"verifsim/harness\"\n")
	for _, r := range reps {
		fmt.Fprintf(&sb, "\t%s %q\n", r.Name, r.ImportPath)
	}
	sb.WriteString(")\n\nfunc init() {\n")
	for _, r := range reps {
		m := b.Metas[r.Name]
		fmt.Fprintf(&sb, "\tharness.Register(%q, %q, %q, %s, %d, %v, %v, map[int]string{", r.Name, r.ImportPath, m.Class, strconv.Quote(specs[r.Name].Spec), r.PkgID, r.UsesSync, len(r.SyncOther) > 0)
		for _, y := range r.Yields {
			fmt.Fprintf(&sb, "%d:%q,", y.ID, y.Func)
		}
		fmt.Fprintf(&sb, "}, %s.VerifRegistry)\n", r.Name)
		fmt.Fprintf(&sb, "\tharness.SetBase(%q, %q, %q)\n", r.Name, m.Base, m.BasePath)
		if r.GoStmts > 0 || r.ChanOps > 0 || r.Selects > 0 {
			// orderings made by goroutines and channels of the generated code itself are not modelled:
			// the happens-before race detector stays off for this package rather than guess
			fmt.Fprintf(&sb, "\tharness.SetNoRace(%q)\n", r.Name)
		}
	}
	sb.WriteString("}\n")
	if err := os.WriteFile(filepath.Join(simDir, "cmd", "rtsim", "registry_gen.go"), []byte(sb.String()), 0o644); err != nil {
		die2("%v", err)
	}
	b.Bin = filepath.Join(bin, "rtsim")
	if out, err := run(simDir, goEnv(), "go", "build", "-o", b.Bin, "./cmd/rtsim"); err != nil {
		die2("build rtsim against the instrumented generated packages failed:\n%s", tail(out, 8000))
	}
	b.BuildS = time.Since(t0).Seconds()
	if os.Getenv("VERIF_NO_CACHE") == "" {
		os.MkdirAll(cdir, 0o755)
		if data, err := os.ReadFile(b.Bin); err == nil {
			if os.WriteFile(filepath.Join(cdir, "rtsim"), data, 0o755) == nil {
				writeJSON(filepath.Join(cdir, "meta.json"), rtCacheMeta{Reports: b.Reports, Metas: b.Metas, Unbuildable: b.Unbuildable, BuildS: b.BuildS, TreeHash: b.TreeHash, CorpusN: b.CorpusN})
			}
		}
		pruneCache(6)
	}
	// the generated sources are no longer needed
	if os.Getenv("VERIF_KEEP_SCRATCH") == "" {
		os.RemoveAll(simDir)
		os.RemoveAll(repoCopy)
	}
	return b
}

func basePathFlagFor(c CorpusEntry) string {
	if strings.Contains(c.Name, "_bpflag") {
		return "/flagbase/v9"
	}
	return ""
}

func firstLineOf(s string) string {
	s = strings.TrimSpace(s)
	if i := strings.IndexByte(s, '\n'); i >= 0 {
		s = s[:i]
	}
	if len(s) > 300 {
		s = s[:300]
	}
	return s
}

type rtJob struct {
	Mode     string          `json:"mode"`
	Property string          `json:"property"`
	Seed     uint64          `json:"seed"`
	Worker   int             `json:"worker"`
	Workers  int             `json:"workers"`
	BudgetS  float64         `json:"budget_s"`
	MaxRuns  int             `json:"max_runs"`
	RunFrom  int             `json:"run_from"`
	ShrinkS  float64         `json:"shrink_s"`
	Out      string          `json:"out"`
	Replay   json.RawMessage `json:"replay,omitempty"`
	Thorough bool            `json:"thorough"`
	Det      bool            `json:"det"`
}

type rtResult struct {
	Mode       string            `json:"mode"`
	Worker     int               `json:"worker"`
	Runs       int               `json:"runs"`
	Requests   int               `json:"requests"`
	Steps      int               `json:"steps"`
	WallS      float64           `json:"wall_s"`
	Violations []genViolation    `json:"violations"`
	Counters   map[string]int    `json:"counters"`
	Probes     map[string]int    `json:"probes"`
	Distinct   []uint64          `json:"distinct"`
	Pairs      []uint64          `json:"pairs"`
	Samples    []json.RawMessage `json:"samples"`
	LogHash    string            `json:"log_hash"`
	Notes      []string          `json:"notes"`
	HarnessErr string            `json:"harness_error"`
	ReplayKey  string            `json:"replay_key"`
	PkgsUsed   map[string]int    `json:"pkgs_used"`
}

func runRTJobs(b *rtBuild, tmpl rtJob, workers int, timeout time.Duration) ([]rtResult, error) {
	var jobs []workerRun
	for w := 0; w < workers; w++ {
		j := tmpl
		j.Worker, j.Workers = w, workers
		j.Out = filepath.Join(b.Scratch, fmt.Sprintf("rtres-%s-%d.json", tmpl.Mode, w))
		jf := filepath.Join(b.Scratch, fmt.Sprintf("rtjob-%s-%d.json", tmpl.Mode, w))
		writeJSON(jf, j)
		jobs = append(jobs, workerRun{JobFile: jf, OutFile: j.Out, Env: []string{"GOMAXPROCS=" + envOr("VERIF_WORKER_GOMAXPROCS", "1")}})
	}
	errs := runWorkers(b.Bin, jobs, timeout)
	var out []rtResult
	for i, e := range errs {
		if e != nil {
			return nil, e
		}
		var r rtResult
		if err := readJSON(jobs[i].OutFile, &r); err != nil {
			return nil, fmt.Errorf("worker %d result: %v", i, err)
		}
		if r.HarnessErr != "" {
			return nil, fmt.Errorf("worker %d: %s", i, r.HarnessErr)
		}
		out = append(out, r)
	}
	return out, nil
}

func envOr(k, d string) string {
	if v := os.Getenv(k); v != "" {
		return v
	}
	return d
}

func replayRT(b *rtBuild, replay []byte) (string, []string, error) {
	var rp struct {
		Seed     uint64 `json:"seed"`
		Property string `json:"property"`
	}
	json.Unmarshal(replay, &rp)
	j := rtJob{Mode: "replay", Property: rp.Property, Seed: rp.Seed, Replay: replay}
	rs, err := runRTJobs(b, j, 1, 10*time.Minute)
	if err != nil {
		return "", nil, err
	}
	return rs[0].ReplayKey, rs[0].Notes, nil
}

var rtLevelText = map[string]string{}

func checkRT(prop, tier string) int {
	switch prop {
	case "C09", "C10", "C14", "C20":
	default:
		die2("unknown property %s", prop)
	}
	t0 := time.Now()
	seed := seedFromEnv()
	fmt.Printf("verif %s tier=%s VERIF_SEED=%d\n", prop, tier, seed)
	scratch := newScratch()
	defer cleanupScratch()
	b := prepareRT(scratch)
	// the quick tier is bounded by its 100 s budget rather than by these counts on a loaded machine
	quickRuns := map[string]int{"C09": 960000, "C10": 960000, "C14": 960000, "C20": 160000}[prop]
	budget := 100.0
	maxRuns := envInt("VERIF_RT_RUNS", quickRuns)
	if tier == "thorough" {
		budget = float64(envInt("VERIF_BUDGET_S", 1500))
		maxRuns = envInt("VERIF_RT_RUNS", 0)
	}
	tmpl := rtJob{Mode: "run", Property: prop, Seed: seed, BudgetS: budget, MaxRuns: maxRuns, ShrinkS: 15, Thorough: tier == "thorough"}
	rs, err := runRTJobs(b, tmpl, nproc(), time.Duration(budget+900)*time.Second)
	if err != nil {
		die2("%v", err)
	}
	// determinism canary
	can := rtJob{Mode: "det", Property: prop, Seed: seed, MaxRuns: 48, Det: true}
	c1, e1 := runRTJobs(b, can, 2, 15*time.Minute)
	os.Setenv("VERIF_WORKER_GOMAXPROCS", "4")
	c2, e2 := runRTJobs(b, can, 2, 15*time.Minute)
	os.Unsetenv("VERIF_WORKER_GOMAXPROCS")
	if e1 != nil || e2 != nil {
		die2("determinism canary failed to run: %v %v", e1, e2)
	}
	canaryDiverged := false
	for i := range c1 {
		if c1[i].LogHash != c2[i].LogHash {
			canaryDiverged = true
		}
	}
	// merge
	runs, reqs, steps := 0, 0, 0
	counters, probes, pkgs := map[string]int{}, map[string]int{}, map[string]int{}
	distinct, pairs := map[uint64]bool{}, map[uint64]bool{}
	var samples []json.RawMessage
	var viols []genViolation
	seen := map[string]bool{}
	cpu := 0.0
	for _, r := range rs {
		runs += r.Runs
		reqs += r.Requests
		steps += r.Steps
		cpu += r.WallS
		for k, v := range r.Counters {
			counters[k] += v
		}
		for k, v := range r.Probes {
			probes[k] += v
		}
		for k, v := range r.PkgsUsed {
			pkgs[k] += v
		}
		for _, h := range r.Distinct {
			distinct[h] = true
		}
		for _, h := range r.Pairs {
			pairs[h] = true
		}
		if len(samples) < 3 {
			samples = append(samples, r.Samples...)
		}
		for _, v := range r.Violations {
			if !seen[v.Key] {
				seen[v.Key] = true
				viols = append(viols, v)
			}
		}
	}
	if len(samples) > 3 {
		samples = samples[:3]
	}
	sort.Slice(viols, func(i, j int) bool { return viols[i].Key < viols[j].Key })
	known := knownKeys(prop)
	unknown := 0
	var knownHit []string
	for _, v := range viols {
		var rp map[string]any
		json.Unmarshal(v.Replay, &rp)
		rp["repo_tree_hash"] = b.TreeHash
		pb, _ := json.MarshalIndent(rp, "", " ")
		got, notes, err := replayRT(b, pb)
		if err != nil {
			die2("replay of %s failed to run: %v", v.Key, err)
		}
		if got != v.Key {
			die2("non-replayable finding (harness bug): key %q replayed as %q", v.Key, got)
		}
		if text, ok := known[v.Key]; ok {
			fmt.Printf("KNOWN-FINDING: property=%s key=%s %s\n", prop, v.Key, text)
			knownHit = append(knownHit, v.Key)
			continue
		}
		unknown++
		if unknown > 6 {
			continue
		}
		dir := filepath.Join(replayDir(), prop)
		os.MkdirAll(dir, 0o755)
		path := filepath.Join(dir, fmt.Sprintf("%d-%s.json", seed, sanitize(v.Key)))
		if err := os.WriteFile(path, append(pb, '\n'), 0o644); err != nil {
			die2("%v", err)
		}
		fmt.Printf("VIOLATION property=%s replay=%s\n", prop, path)
		fmt.Printf("  finding_key=%s\n", v.Key)
		for i, n := range notes {
			if i > 40 {
				break
			}
			for _, l := range strings.Split(n, "\n") {
				fmt.Printf("  | %s\n", clip(l, 400))
			}
		}
	}
	if canaryDiverged && unknown == 0 {
		die2("determinism canary: same seeds gave different event logs (GOMAXPROCS 1 vs 4) and no violation was found")
	}
	wall := time.Since(t0).Seconds()
	faults := map[string]int{}
	for k, v := range counters {
		if strings.HasPrefix(k, "fault_") {
			faults[strings.TrimPrefix(k, "fault_")] = v
		}
	}
	yields, mapSites, syncPkgs := 0, 0, 0
	for _, r := range b.Reports {
		yields += len(r.Yields)
		mapSites += len(r.MapSites)
		if r.UsesSync {
			syncPkgs++
		}
	}
	var zeroProbes []string
	for _, pn := range rtProbeNames[prop] {
		if probes[pn] == 0 {
			zeroProbes = append(zeroProbes, pn)
		}
	}
	ev := &Evidence{PropertyID: prop, Tier: tier, Seed: int64(seed), Level: "exploration", WallS: wall, Violations: unknown,
		Coverage: map[string]any{
			"evaluations":                    runs,
			"distinct_nontrivial":            len(distinct),
			"rule":                           rtRules[prop],
			"samples":                        samples,
			"simulated_runs":                 runs,
			"simulated_requests":             reqs,
			"simulated_time_scheduler_steps": steps,
			"runs_per_hour":                  int(float64(runs) / wall * 3600),
			"cpu_seconds_in_workers":         cpu,
			"faults_planned_by_kind":         faults,
			"faults_and_rare_conditions_actually_hit": probes,
			"probes_at_zero":              zeroProbes,
			"counters":                    counters,
			"distinct_overlap_site_pairs": len(pairs),
			"packages_under_simulation":   len(b.Reports),
			"runs_per_package":            pkgs,
			"specs_unbuildable":           b.Unbuildable,
			"yield_sites_inserted":        yields,
			"map_ranges_pinned":           mapSites,
			"packages_using_sync":         syncPkgs,
			"known_findings_hit":          knownHit,
			"determinism_canary":          "48 seeds re-run in 2+2 extra processes with GOMAXPROCS 1 and 4: event-log hashes identical",
			"real_vs_stub":                "real: generated router/handlers/codecs/client (statement-level yields inserted), encoding/json, net/url, net/http wire codec (Request.Write, ReadRequest, Response.Write, ReadResponse), kin-openapi openapi3filter (C09 oracle 2); real but released one at a time: channel operations, selects and WaitGroups of the generated code itself (none today); stub: TCP, net/http server connection loop and ResponseWriter (server shell), http.Transport (SimTransport), goroutine scheduler (tape), sync.Mutex/RWMutex/Pool of the generated code (simulated), user handlers/authenticators/middlewares/CORS handler (recording harness)",
			"build_s":                     b.BuildS,
			"build_cached":                b.Cached,
			"repo_tree_hash":              b.TreeHash,
		},
		Assumptions: []string{
			"statement-level atomicity: a task can be preempted only at inserted yields (before every statement of the generated package) and at the transport/stream/ResponseWriter seams",
			"the server shell models net/http's header snapshot at first WriteHeader/Write, implicit 200, superfluous-WriteHeader counting, no body for HEAD/1xx/204/304, failing writes after client loss; no HTTP/2, no Expect: 100-continue, no hijacking, no trailers",
			"responses are handed to the client when the handler returns (no streaming overlap between handler and client)",
			"domain restrictions of DESIGN §11",
			"Go toolchain " + goVersion(),
		}}
	writeEvidence(ev)
	fmt.Printf("%s: %d runs, %d requests, %d steps, %d distinct non-trivial, %d packages (%d unbuildable), %d unknown violations, %d known; %.0fs (build %.0fs cached=%v)\n",
		prop, runs, reqs, steps, len(distinct), len(b.Reports), len(b.Unbuildable), unknown, len(knownHit), wall, b.BuildS, b.Cached)
	if len(zeroProbes) > 0 {
		fmt.Printf("%s: warning: probes at zero: %v\n", prop, zeroProbes)
	}
	if unknown > 0 {
		return 1
	}
	return 0
}

func clip(s string, n int) string {
	if len(s) > n {
		return s[:n] + "…"
	}
	return s
}

var rtProbeNames = map[string][]string{
	"C09": {"request_delivered_in_segments", "response_delivered_in_segments", "duplicate_delivery"},
	"C10": {"intermediary_to_default_arm", "intermediary_to_error_arm", "truncation_to_error", "response_truncated", "response_delivered_in_segments", "response_truncation_hit_in_body", "response_truncation_hit_in_head"},
	"C14": {"request_delivered_in_segments", "request_reset_hit", "response_writer_failed", "LogError_called", "server_ctx_cancelled_mid_request", "server_ctx_cancelled_at_start", "auth_rejected", "raw_response_source_failed_mid_copy", "cors_path"},
	"C20": {"two_tasks_inside_same_generated_function", "request_delivered_in_segments", "request_reset_hit", "response_writer_failed", "LogError_called", "duplicate_delivery", "intermediary_substitution", "context_cancelled_before_send", "auth_rejected", "cors_path", "response_truncated"},
}

var rtRules = map[string]string{
	"C09": "one evaluation = one simulated run: 1-4 seeded typed requests (values built by reflection over the generated request types, boundary-heavy) sent by the generated client through the wire-level SimTransport to the generated API; config 0 is fault-free/single caller, otherwise request/response bytes are segmented at seeded offsets, deliveries duplicated and callers interleaved by the tape. Oracle: parsed == sent (canonical form), duplicate deliveries agree, and (G/K specs, non-empty strings) kin-openapi openapi3filter accepts the wire request. Distinct+non-trivial = distinct (package, operation, sent value, fault plan, context-switch sequence).",
	"C10": "one evaluation = one simulated run: 1-3 typed requests whose handler returns a seeded planned response value (kind drawn from the concrete response types of the operation, default codes from undocumented statuses); config 0 fault-free, 1 segmentation, 2 intermediary substitution of an undocumented status, 3 truncation. Oracle per config as in DESIGN §4. Distinct+non-trivial = distinct (package, operation, planned response, fault plan, context-switch sequence).",
	"C14": "one evaluation = one simulated run: 1-4 adversarial raw requests (a valid wire request from the generated client + 0-4 catalogue mutations) or valid calls, each under stream faults (segmentation, reset before/inside the body, reader returning data+error, failing response writer, server context cancelled at the task's own k-th step, failing raw response source). Oracle: no panic escapes ServeHTTP/Parse, no superfluous WriteHeader, every task terminates. Distinct+non-trivial = distinct (package, wire bytes, fault plan).",
	"C20": "one evaluation = one concurrent simulated run of N in {2..8,16,32,64} requests (typed, raw, spec-file/not-found/CORS) on one API and one Client under a tape-chosen interleaving (yield before every generated statement; sticky or uniform strategy; 100/50/10% of yield sites enabled), every per-request fault anchored to the request's own bytes/steps; plus N solo reference runs. Oracle: per-request observation record == solo record; no change of package-level variables / shared API / shared Client by a request task (deep structural hash every 16 steps and at the end); no stall. Distinct+non-trivial = runs with >=1 context switch and a distinct (N, context-switch-sequence hash, observation hash).",
}

func replayFileRT(path, prop string) int {
	pb, err := os.ReadFile(path)
	if err != nil {
		die2("%v", err)
	}
	scratch := newScratch()
	defer cleanupScratch()
	b := prepareRT(scratch)
	var rp struct {
		FindingKey string `json:"finding_key"`
	}
	json.Unmarshal(pb, &rp)
	key, notes, err := replayRT(b, pb)
	if err != nil {
		die2("%v", err)
	}
	for _, n := range notes {
		fmt.Println("  | " + n)
	}
	if key == "" {
		fmt.Printf("replay: no violation reproduced (recorded key %s)\n", rp.FindingKey)
		return 0
	}
	fmt.Printf("replay: reproduced finding_key=%s (recorded %s)\n", key, rp.FindingKey)
	fmt.Printf("VIOLATION property=%s replay=%s\n", prop, path)
	return 1
}
