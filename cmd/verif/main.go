// Command verif is the orchestrator: it copies /repo's current working tree into
// scratch space, inserts the simulator seams, builds the simulation workers, fans
// seeds out over processes, merges evidence and reports violations.
package main

import (
	"encoding/json"
	"fmt"
	"io/fs"
	"os"
	"path/filepath"
	"sort"
	"strings"
	"time"
)

func usage() {
	fmt.Fprintln(os.Stderr, "usage: verif check <C09|C10|C12|C14|C19|C20> [--tier quick|thorough]\n       verif replay <file>\n       verif selftest <determinism|sensitivity> ...")
	os.Exit(2)
}

func main() {
	if len(os.Args) < 2 {
		usage()
	}
	ownGoCache()
	switch os.Args[1] {
	case "check":
		if len(os.Args) < 3 {
			usage()
		}
		tier := os.Getenv("VERIF_TIER")
		for i := 3; i < len(os.Args); i++ {
			if os.Args[i] == "--tier" && i+1 < len(os.Args) {
				tier = os.Args[i+1]
			} else if strings.HasPrefix(os.Args[i], "--tier=") {
				tier = strings.TrimPrefix(os.Args[i], "--tier=")
			}
		}
		if tier != "thorough" {
			tier = "quick"
		}
		code := 2
		switch os.Args[2] {
		case "C12":
			code = checkC12(tier)
		case "C19":
			code = checkC19(tier)
		default:
			code = checkRT(os.Args[2], tier)
		}
		cleanupScratch()
		os.Exit(code)
	case "replay":
		if len(os.Args) < 3 {
			usage()
		}
		b, err := os.ReadFile(os.Args[2])
		if err != nil {
			die2("%v", err)
		}
		var rp struct {
			Property string `json:"property"`
		}
		json.Unmarshal(b, &rp)
		code := 2
		switch rp.Property {
		case "C12", "C19":
			code = replayFileGen(os.Args[2], rp.Property)
		default:
			code = replayFileRT(os.Args[2], rp.Property)
		}
		cleanupScratch()
		os.Exit(code)
	case "selftest":
		os.Exit(selftest(os.Args[2:]))
	default:
		usage()
	}
}

// ownGoCache gives every go build / go list this tool starts a build cache of its own and keeps it small. Each
// check compiles a freshly rewritten copy of the tree under a new scratch path, so the entries are rarely reused;
// in the shared default cache they piled up to >100 GB within a day.
func ownGoCache() {
	if os.Getenv("VERIF_KEEP_GOCACHE") != "" {
		return
	}
	dir := filepath.Join(cacheDir(), "gocache")
	os.MkdirAll(dir, 0o755)
	os.Setenv("GOCACHE", dir)
	var total int64
	type ent struct {
		p string
		t time.Time
		n int64
	}
	var es []ent
	filepath.WalkDir(dir, func(p string, d fs.DirEntry, err error) error {
		if err != nil || d.IsDir() {
			return nil
		}
		if fi, e := d.Info(); e == nil {
			total += fi.Size()
			es = append(es, ent{p, fi.ModTime(), fi.Size()})
		}
		return nil
	})
	const limit = 6 << 30
	if total < limit {
		return
	}
	sort.Slice(es, func(i, j int) bool { return es[i].t.Before(es[j].t) })
	for _, e := range es {
		if total < limit/2 {
			break
		}
		if os.Remove(e.p) == nil {
			total -= e.n
		}
	}
}
