// Command verif is the orchestrator: it copies /repo's current working tree into
// scratch space, inserts the simulator seams, builds the simulation workers, fans
// seeds out over processes, merges evidence and reports violations.
package main

import (
	"encoding/json"
	"fmt"
	"os"
	"strings"
)

func usage() {
	fmt.Fprintln(os.Stderr, "usage: verif check <C09|C10|C12|C14|C19|C20> [--tier quick|thorough]\n       verif replay <file>\n       verif selftest <determinism|sensitivity> ...")
	os.Exit(2)
}

func main() {
	if len(os.Args) < 2 {
		usage()
	}
	switch os.Args[1] {
	case "check":
		if len(os.Args) < 3 {
			usage()
		}
		tier := os.Getenv("VERIF_TIER")
		for i := 3; i < len(os.Args); i++ {
			if os.Args[i] == "--tier" && i+1 < len(os.Args) {
				tier = os.Args[i+1]
			} else if strings.HasPrefix(os.Args[i], "--tier=") {
				tier = strings.TrimPrefix(os.Args[i], "--tier=")
			}
		}
		if tier != "thorough" {
			tier = "quick"
		}
		code := 2
		switch os.Args[2] {
		case "C12":
			code = checkC12(tier)
		case "C19":
			code = checkC19(tier)
		default:
			code = checkRT(os.Args[2], tier)
		}
		cleanupScratch()
		os.Exit(code)
	case "replay":
		if len(os.Args) < 3 {
			usage()
		}
		b, err := os.ReadFile(os.Args[2])
		if err != nil {
			die2("%v", err)
		}
		var rp struct {
			Property string `json:"property"`
		}
		json.Unmarshal(b, &rp)
		code := 2
		switch rp.Property {
		case "C12", "C19":
			code = replayFileGen(os.Args[2], rp.Property)
		default:
			code = replayFileRT(os.Args[2], rp.Property)
		}
		cleanupScratch()
		os.Exit(code)
	case "selftest":
		os.Exit(selftest(os.Args[2:]))
	default:
		usage()
	}
}
