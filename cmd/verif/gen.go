package main

import (
	"encoding/json"
	"fmt"
	"os"
	"path/filepath"
	"sort"
	"strings"
	"time"

	"verif/internal/instr"
	"verif/internal/specgen"
)

type genBuild struct {
	Scratch  string
	RepoCopy string
	Gensim   string
	CLI      string
	Report   *instr.GenReport
	BuildS   float64
	TreeHash string
	DepSites int
}

// prepareGen copies /repo's working tree, rewrites it and builds the gensim worker and the instrumented CLI.
func prepareGen(scratch string) *genBuild {
	t0 := time.Now()
	b := &genBuild{Scratch: scratch, RepoCopy: filepath.Join(scratch, "repo")}
	if err := copyTree(repoDir, b.RepoCopy, repoSkip); err != nil {
		die2("copy /repo: %v", err)
	}
	b.TreeHash = treeHash(b.RepoCopy, nil)
	rt := installRT(b.RepoCopy)
	rep, err := instr.RewriteGenerator(b.RepoCopy)
	if err != nil {
		die2("rewrite generator (the tree does not load/type-check?): %v", err)
	}
	b.Report = rep
	// the OpenAPI loader is a dependency, but the order in which it walks its maps decides what goag gets to see
	// (e.g. which $ref has its Value resolved): copy it, route its map iterations through the same hook
	if os.Getenv("VERIF_NO_DEP_REWRITE") == "" {
		if out, err := run(b.RepoCopy, goEnv(), "go", "list", "-m", "-f", "{{.Dir}}", "github.com/getkin/kin-openapi"); err == nil {
			src := strings.TrimSpace(out)
			dep := filepath.Join(scratch, "deps", "kin-openapi")
			if err := copyTree(src, dep, nil); err == nil {
				filepath.Walk(dep, func(p string, fi os.FileInfo, err error) error {
					if err == nil {
						os.Chmod(p, 0o755)
					}
					return nil
				})
				if sum, err := os.ReadFile(filepath.Join(repoDir, "go.sum")); err == nil {
					os.WriteFile(filepath.Join(dep, "go.sum"), sum, 0o644)
				}
				// the hook is generic: lift the copy's language version to 1.20 (still per-loop loop variables)
				if gmb, err := os.ReadFile(filepath.Join(dep, "go.mod")); err == nil {
					lines := strings.Split(string(gmb), "\n")
					for i, l := range lines {
						if strings.HasPrefix(l, "go 1.") {
							lines[i] = "go 1.20"
						}
					}
					os.WriteFile(filepath.Join(dep, "go.mod"), []byte(strings.Join(lines, "\n")), 0o644)
				}
				next := 1
				for _, s := range rep.Sites {
					if s.ID >= next {
						next = s.ID + 1
					}
				}
				sites, err := instr.RewriteDependency(dep, "./openapi3", "dep:kin-openapi/", next)
				if err != nil {
					die2("rewrite of the copied kin-openapi loader failed: %v", err)
				}
				rep.Sites = append(rep.Sites, sites...)
				b.DepSites = len(sites)
				gm := filepath.Join(rt, "go.mod")
				if cur, err := os.ReadFile(gm); err == nil {
					os.WriteFile(gm, append(cur, []byte("\nreplace github.com/getkin/kin-openapi => ../../deps/kin-openapi\n")...), 0o644)
				}
			}
		}
	}
	bin := filepath.Join(scratch, "bin")
	os.MkdirAll(bin, 0o755)
	b.Gensim = filepath.Join(bin, "gensim")
	b.CLI = filepath.Join(bin, "goag-sim")
	if out, err := run(rt, goEnv(), "go", "build", "-o", b.Gensim, "./cmd/gensim"); err != nil {
		die2("build gensim against the rewritten tree failed:\n%s", tail(out, 6000))
	}
	if out, err := run(rt, goEnv(), "go", "build", "-o", b.CLI, "github.com/vkd/goag/cmd/goag"); err != nil {
		die2("build instrumented cmd/goag failed:\n%s", tail(out, 6000))
	}
	b.BuildS = time.Since(t0).Seconds()
	return b
}

type genJob struct {
	Mode      string          `json:"mode"`
	Seed      uint64          `json:"seed"`
	Worker    int             `json:"worker"`
	Workers   int             `json:"workers"`
	Corpus    []CorpusEntry   `json:"corpus"`
	Sites     []instr.Site    `json:"sites"`
	CLI       string          `json:"cli"`
	Scratch   string          `json:"scratch"`
	BudgetS   float64         `json:"budget_s"`
	MaxRuns   int             `json:"max_runs"`
	KnownKeys []string        `json:"known_keys"`
	CLIFrac   int             `json:"cli_per_1000"`
	Out       string          `json:"out"`
	Replay    json.RawMessage `json:"replay,omitempty"`
	ShrinkS   float64         `json:"shrink_s"`
	RunFrom   int             `json:"run_from"`
	EnumLimit int             `json:"enum_limit"`
}

type genViolation struct {
	Key    string          `json:"key"`
	Replay json.RawMessage `json:"replay"`
}

type siteAgg struct {
	Execs, MaxLen, Deviated, Orders int
	Uncanon                         bool
}

type genResult struct {
	Mode       string              `json:"mode"`
	Worker     int                 `json:"worker"`
	Runs       int                 `json:"runs"`
	WallS      float64             `json:"wall_s"`
	Violations []genViolation      `json:"violations"`
	Counters   map[string]int      `json:"counters"`
	SiteStats  map[string]*siteAgg `json:"site_stats"`
	Distinct   []uint64            `json:"distinct"`
	Samples    []json.RawMessage   `json:"samples"`
	Templates  map[string]int      `json:"templates"`
	LogHash    string              `json:"log_hash"`
	Notes      []string            `json:"notes"`
	HarnessErr string              `json:"harness_error"`
	Exhaustive bool                `json:"exhaustive"`
	ReplayKey  string              `json:"replay_key"`
}

func genCorpus(forC19 bool) []CorpusEntry {
	var c []CorpusEntry
	c = append(c, loadCorpusDir(filepath.Join(verifDir, "corpus", "fixtures"), "F")...)
	c = append(c, loadCorpusDir(filepath.Join(verifDir, "corpus", "hand"), "K")...)
	// G: seeded synthetic specs in the supported dialect
	seed := seedFromEnv()
	for i := 0; i < envInt("VERIF_GEN_SPECS", 30); i++ {
		name, text, cfg := specgen.Generate(seed, i)
		c = append(c, CorpusEntry{Name: name, Class: "G", Spec: text, SpecName: "openapi.yaml", HasConfig: cfg != "", Config: cfg})
	}
	return c
}

func dirExists(p string) bool { fi, err := os.Stat(p); return err == nil && fi.IsDir() }

// runGenJobs fans a job template out over workers and merges results.
func runGenJobs(b *genBuild, tmpl genJob, workers int, timeout time.Duration) ([]genResult, error) {
	var jobs []workerRun
	for w := 0; w < workers; w++ {
		j := tmpl
		j.Worker, j.Workers = w, workers
		j.Scratch = filepath.Join(b.Scratch, fmt.Sprintf("w%d", w))
		j.Out = filepath.Join(b.Scratch, fmt.Sprintf("res-%s-%d.json", tmpl.Mode, w))
		jf := filepath.Join(b.Scratch, fmt.Sprintf("job-%s-%d.json", tmpl.Mode, w))
		writeJSON(jf, j)
		jobs = append(jobs, workerRun{JobFile: jf, OutFile: j.Out, Env: []string{"GOMAXPROCS=" + envOr("VERIF_WORKER_GOMAXPROCS", "1")}})
	}
	errs := runWorkers(b.Gensim, jobs, timeout)
	var out []genResult
	for i, e := range errs {
		if e != nil {
			return nil, e
		}
		var r genResult
		if err := readJSON(jobs[i].OutFile, &r); err != nil {
			return nil, fmt.Errorf("worker %d result: %v", i, err)
		}
		if r.HarnessErr != "" {
			return nil, fmt.Errorf("worker %d: %s", i, r.HarnessErr)
		}
		out = append(out, r)
	}
	return out, nil
}

type merged struct {
	Runs       int
	Counters   map[string]int
	Sites      map[string]*siteAgg
	Distinct   map[uint64]bool
	Samples    []json.RawMessage
	Templates  map[string]int
	Violations []genViolation
	Notes      []string
	Exhaustive bool
	CPU        float64
}

func mergeGen(rs []genResult) *merged {
	m := &merged{Counters: map[string]int{}, Sites: map[string]*siteAgg{}, Distinct: map[uint64]bool{}, Templates: map[string]int{}, Exhaustive: true}
	seen := map[string]bool{}
	for _, r := range rs {
		m.Runs += r.Runs
		m.CPU += r.WallS
		for k, v := range r.Counters {
			m.Counters[k] += v
		}
		for k, v := range r.SiteStats {
			a := m.Sites[k]
			if a == nil {
				a = &siteAgg{}
				m.Sites[k] = a
			}
			a.Execs += v.Execs
			a.Deviated += v.Deviated
			if v.MaxLen > a.MaxLen {
				a.MaxLen = v.MaxLen
			}
			if v.Orders > a.Orders {
				a.Orders = v.Orders
			}
			a.Uncanon = a.Uncanon || v.Uncanon
		}
		for _, h := range r.Distinct {
			m.Distinct[h] = true
		}
		for k, v := range r.Templates {
			m.Templates[k] += v
		}
		if len(m.Samples) < 4 {
			m.Samples = append(m.Samples, r.Samples...)
		}
		for _, v := range r.Violations {
			if !seen[v.Key] {
				seen[v.Key] = true
				m.Violations = append(m.Violations, v)
			}
		}
		m.Notes = append(m.Notes, r.Notes...)
		if !r.Exhaustive {
			m.Exhaustive = false
		}
	}
	if len(m.Samples) > 4 {
		m.Samples = m.Samples[:4]
	}
	sort.Slice(m.Violations, func(i, j int) bool { return m.Violations[i].Key < m.Violations[j].Key })
	return m
}

// reportViolations writes replay files, confirms each in a fresh process and prints the verdict lines.
// It returns the number of violations that are not known findings.
func reportViolations(prop string, b *genBuild, corpus []CorpusEntry, vs []genViolation) (unknown int, knownHit []string) {
	known := knownKeys(prop)
	var nonRepro []string
	defer func() {
		if len(nonRepro) > 0 && unknown == 0 {
			die2("non-replayable finding(s) and nothing reproducible to report (harness bug or uncontrolled nondeterminism): %v", nonRepro)
		}
		if len(nonRepro) > 0 {
			fmt.Printf("note: %d finding(s) did not reproduce in a fresh process and were dropped: %v\n", len(nonRepro), nonRepro)
		}
	}()
	reported := map[string]bool{}
	for _, v := range vs {
		var rp map[string]any
		json.Unmarshal(v.Replay, &rp)
		rp["repo_tree_hash"] = b.TreeHash
		dir := filepath.Join(replayDir(), prop)
		os.MkdirAll(dir, 0o755)
		name := fmt.Sprintf("%v-%v-%s.json", rp["seed"], rp["run"], sanitize(v.Key))
		path := filepath.Join(dir, name)
		pb, _ := json.MarshalIndent(rp, "", " ")
		// confirm in a fresh process before reporting
		got, notes, err := replayGen(b, corpus, pb)
		if err != nil {
			die2("replay of %s failed to run: %v", v.Key, err)
		}
		if got != v.Key && (got == "uncontrolled:differs-under-identical-tape" || got == "uncontrolled:generator-returns-while-still-writing") {
			v.Key = got
			rp["finding_key"] = got
			pb, _ = json.MarshalIndent(rp, "", " ")
			name = fmt.Sprintf("%v-%v-%s.json", rp["seed"], rp["run"], sanitize(v.Key))
			path = filepath.Join(dir, name)
		}
		if got != v.Key {
			nonRepro = append(nonRepro, fmt.Sprintf("%q replayed as %q", v.Key, got))
			continue
		}
		if reported[v.Key] {
			continue
		}
		reported[v.Key] = true
		if text, ok := known[v.Key]; ok {
			fmt.Printf("KNOWN-FINDING: property=%s key=%s %s\n", prop, v.Key, text)
			knownHit = append(knownHit, v.Key)
			continue
		}
		if err := os.WriteFile(path, append(pb, '\n'), 0o644); err != nil {
			die2("%v", err)
		}
		unknown++
		fmt.Printf("VIOLATION property=%s replay=%s\n", prop, path)
		fmt.Printf("  finding_key=%s\n", v.Key)
		for _, n := range notes {
			for _, l := range strings.Split(n, "\n") {
				fmt.Printf("  | %s\n", l)
			}
		}
	}
	return
}

func sanitize(s string) string {
	r := strings.NewReplacer("/", "_", ":", "_", "#", "", "+", "_", " ", "_", "=", "-", ",", "_")
	s = r.Replace(s)
	if len(s) > 100 {
		s = s[:100]
	}
	return s
}

func replayGen(b *genBuild, corpus []CorpusEntry, replay []byte) (key string, notes []string, err error) {
	j := genJob{Mode: "replay", Corpus: corpus, Sites: b.Report.Sites, CLI: b.CLI, Replay: replay,
		Scratch: filepath.Join(b.Scratch, "replay-w"), Out: filepath.Join(b.Scratch, "replay-res.json")}
	var rp struct {
		Seed uint64 `json:"seed"`
	}
	json.Unmarshal(replay, &rp)
	j.Seed = rp.Seed
	jf := filepath.Join(b.Scratch, "replay-job.json")
	writeJSON(jf, j)
	errs := runWorkers(b.Gensim, []workerRun{{JobFile: jf, OutFile: j.Out, Env: []string{"GOMAXPROCS=1"}}}, 10*time.Minute)
	if errs[0] != nil {
		return "", nil, errs[0]
	}
	var r genResult
	if err := readJSON(j.Out, &r); err != nil {
		return "", nil, err
	}
	if r.HarnessErr != "" {
		return "", nil, fmt.Errorf("%s", r.HarnessErr)
	}
	return r.ReplayKey, r.Notes, nil
}

func seedFromEnv() uint64 {
	s := os.Getenv("VERIF_SEED")
	if s == "" {
		return 1
	}
	var v uint64
	if _, err := fmt.Sscan(s, &v); err != nil {
		return 1
	}
	return v
}

func envInt(name string, def int) int {
	if s := os.Getenv(name); s != "" {
		var v int
		if _, err := fmt.Sscan(s, &v); err == nil {
			return v
		}
	}
	return def
}

// ---- C12 -------------------------------------------------------------------------------------------

func checkC12(tier string) int {
	t0 := time.Now()
	seed := seedFromEnv()
	fmt.Printf("verif C12 tier=%s VERIF_SEED=%d\n", tier, seed)
	scratch := newScratch()
	defer cleanupScratch()
	b := prepareGen(scratch)
	corpus := genCorpus(false)
	maxRuns, budget := 6400, 150.0
	if tier == "thorough" {
		maxRuns, budget = 0, float64(envInt("VERIF_BUDGET_S", 1500))
	}
	maxRuns = envInt("VERIF_C12_RUNS", maxRuns)
	known := knownKeys("C12")
	tmpl := genJob{Mode: "c12", Seed: seed, Corpus: corpus, Sites: b.Report.Sites, CLI: b.CLI, BudgetS: budget, MaxRuns: maxRuns, KnownKeys: sortedKeysOf(known), ShrinkS: 15}
	rs, err := runGenJobs(b, tmpl, nproc(), time.Duration(budget+600)*time.Second)
	if err != nil {
		die2("%v", err)
	}
	m := mergeGen(rs)
	// determinism canary: re-run a slice of the seeds in two more processes and compare event-log hashes
	canary := genJob{Mode: "c12det", Seed: seed, Corpus: corpus, Sites: b.Report.Sites, CLI: b.CLI, MaxRuns: 64, ShrinkS: 1}
	c1, err1 := runGenJobs(b, canary, 2, 10*time.Minute)
	c2, err2 := runGenJobs(b, canary, 2, 10*time.Minute)
	if err1 != nil || err2 != nil {
		die2("determinism canary failed to run: %v %v", err1, err2)
	}
	unknown, knownHit := reportViolations("C12", b, corpus, m.Violations)
	canaryNote := "64 seeds re-run in 2x2 extra processes: event-log hashes identical"
	for i := range c1 {
		if c1[i].LogHash != c2[i].LogHash {
			if unknown == 0 {
				die2("determinism canary: same seeds gave different event logs (%s vs %s) and no violation was found", c1[i].LogHash, c2[i].LogHash)
			}
			canaryNote = "event logs of identical seeds DIFFERED between processes (consistent with the reported violation)"
		}
	}

	execd, exercised := 0, 0
	siteOut := map[string]any{}
	for _, s := range b.Report.Sites {
		a := m.Sites[s.Key()]
		if a == nil {
			siteOut[s.Key()] = map[string]any{"executed": 0, "kind": s.Kind, "controlled": s.Controlled}
			continue
		}
		execd++
		if a.MaxLen >= 2 && a.Deviated > 0 {
			exercised++
		}
		siteOut[s.Key()] = map[string]any{"executed": a.Execs, "max_keys_seen": a.MaxLen, "runs_deviating": a.Deviated, "distinct_orders_seen_max_per_worker": a.Orders, "kind": s.Kind, "controlled": s.Controlled, "key_order_canonical": !a.Uncanon}
	}
	wall := time.Since(t0).Seconds()
	ev := &Evidence{PropertyID: "C12", Tier: tier, Seed: int64(seed), Level: "exploration", WallS: wall, Violations: unknown,
		Coverage: map[string]any{
			"evaluations":            m.Runs,
			"distinct_nontrivial":    len(m.Distinct),
			"rule":                   "one evaluation = one generation of a corpus invocation (spec x flags, seeded) under a tape-chosen schedule: map-iteration permutations at the active map-order sites (swarm: one site / a third of the sites / all sites), process history (fresh, 2nd/3rd run in the same process, after another spec, separate CLI process) and simulated clock offset; compared byte-for-byte with the sorted-order fresh run. Distinct+non-trivial = distinct (invocation, applied permutations, history, clock) tuples in which at least one site really received a non-identity order or history/clock differed from the baseline.",
			"samples":                m.Samples,
			"simulated_runs":         m.Runs,
			"runs_per_hour":          int(float64(m.Runs) / wall * 3600),
			"cpu_seconds_in_workers": m.CPU,
			"counters":               m.Counters,
			"map_order_sites":        siteOut,
			"sites_total":            len(b.Report.Sites),
			"sites_executed":         execd,
			"sites_exercised_with_>=2_keys_and_deviating_order": exercised,
			"uncontrolled_sites": b.Report.Uncontrolled,
			"templates_rendered": m.Templates,
			"corpus_specs":       len(corpus),
			"known_findings_hit": knownHit,
			"rewrite_report":     map[string]any{"os_files": b.Report.OSFiles, "time_rewrites": b.Report.TimeRewrites, "rand_files": b.Report.RandFiles, "go_stmts": b.Report.GoStmts, "go_stmts_turned_into_tasks": b.Report.GoRewritten, "blocking_statements_bracketed": b.Report.SyncBracketed, "blocking_operations_not_modelled": b.Report.SyncUnmodelled, "numcpu_rewrites": b.Report.NumCPURewrites, "selects_polled_in_tape_order": b.Report.SelectsPolled, "selects": b.Report.Selects, "per_iteration_loopvar": b.Report.PerIterLoopVar},
			"determinism_canary": canaryNote,
			"real_vs_stub":       "real: goag, generator, specification, cmd/goag (CLI mode), templates, kin-openapi loader, yaml, x/tools/imports, kernel FS under scratch; stub: Go map iteration order inside goag's packages and the kin-openapi loader (tape), clock and timers (simulated), processor count (ambient input), scheduling of goroutines the generator starts itself (tape; none today)",
			"build_s":            b.BuildS,
			"repo_tree_hash":     b.TreeHash,
		},
		Assumptions: []string{
			"map iteration inside yaml and x/tools is not tape-controlled (the kin-openapi loader's is); only the separate-process leg can see it",
			"sites listed under uncontrolled_sites are not permuted",
			"a run in which both the baseline and the permuted run fail is not compared (error messages are not generated files)",
			"Go toolchain " + goVersion(),
		}}
	writeEvidence(ev)
	fmt.Printf("C12: %d runs, %d distinct non-trivial, %d/%d sites exercised, %d unknown violations, %d known; %.0fs\n", m.Runs, len(m.Distinct), exercised, len(b.Report.Sites), unknown, len(knownHit), wall)
	if unknown > 0 {
		return 1
	}
	return 0
}

func goVersion() string {
	out, _ := run("", goEnv(), "go", "version")
	return strings.TrimSpace(out)
}

// ---- C19 -------------------------------------------------------------------------------------------

func checkC19(tier string) int {
	t0 := time.Now()
	seed := seedFromEnv()
	fmt.Printf("verif C19 tier=%s VERIF_SEED=%d\n", tier, seed)
	scratch := newScratch()
	defer cleanupScratch()
	b := prepareGen(scratch)
	corpus := genCorpus(true)
	var all []genResult
	budget := 120.0
	randRuns, enumLimit, cliFrac := envInt("VERIF_C19_RUNS", 4000), envInt("VERIF_C19_ENUM_LIMIT", 400), 20
	if tier == "thorough" {
		budget = float64(envInt("VERIF_BUDGET_S", 1500))
		randRuns, enumLimit, cliFrac = 0, 0, 30
	}
	// 1. the finite core space (complete in the thorough tier, a per-worker prefix in the quick tier)
	enum := genJob{Mode: "c19enum", Seed: seed, Corpus: corpus, Sites: b.Report.Sites, CLI: b.CLI, EnumLimit: enumLimit, ShrinkS: 15}
	if tier == "thorough" {
		enum.BudgetS = budget * 2
	} else {
		enum.BudgetS = budget
	}
	rs, err := runGenJobs(b, enum, nproc(), time.Duration(enum.BudgetS+600)*time.Second)
	if err != nil {
		die2("%v", err)
	}
	enumMerged := mergeGen(rs)
	all = append(all, rs...)
	// 2. seeded random histories (core and long), some through the CLI binary
	rnd := genJob{Mode: "c19", Seed: seed, Corpus: corpus, Sites: b.Report.Sites, CLI: b.CLI, MaxRuns: randRuns, BudgetS: budget, CLIFrac: cliFrac, ShrinkS: 15}
	rs2, err := runGenJobs(b, rnd, nproc(), time.Duration(budget+600)*time.Second)
	if err != nil {
		die2("%v", err)
	}
	all = append(all, rs2...)
	m := mergeGen(all)
	canary := genJob{Mode: "c19det", Seed: seed, Corpus: corpus, Sites: b.Report.Sites, CLI: b.CLI, MaxRuns: 64, ShrinkS: 1}
	c1, err1 := runGenJobs(b, canary, 2, 10*time.Minute)
	c2, err2 := runGenJobs(b, canary, 2, 10*time.Minute)
	if err1 != nil || err2 != nil {
		die2("determinism canary failed to run: %v %v", err1, err2)
	}
	unknown, knownHit := reportViolations("C19", b, corpus, m.Violations)
	for i := range c1 {
		if c1[i].LogHash != c2[i].LogHash && unknown == 0 {
			die2("determinism canary: same seeds gave different event logs and no violation was found")
		}
	}
	wall := time.Since(t0).Seconds()
	faults := map[string]int{}
	probes := map[string]int{}
	for k, v := range m.Counters {
		if strings.HasPrefix(k, "fault_") {
			faults[strings.TrimPrefix(k, "fault_")] = v
		}
		if strings.HasPrefix(k, "probe_") {
			probes[strings.TrimPrefix(k, "probe_")] = v
		}
	}
	exhaustive := tier == "thorough" && enumMerged.Exhaustive
	ev := &Evidence{PropertyID: "C19", Tier: tier, Seed: int64(seed), Level: "fault_enumeration", WallS: wall, Violations: unknown,
		Coverage: map[string]any{
			"evaluations":           m.Runs,
			"distinct_nontrivial":   len(m.Distinct),
			"rule":                  "one evaluation = one history executed on one real directory: generator invocations (8 core = {spec with/without components} x client x api-handler; plus 8 seeded extra spec/flag invocations in long histories), user writes, user damage to goag-owned files, reruns; at most one disk fault per faulted step (crash before/after a call, torn write + crash, short write + ENOSPC, errno) at a chosen os call. Invariants after every step. Core space = every history of length<=3 x every (non-final step, fault kind, call index, torn variant): enumerated completely in the thorough tier (exhaustive_core_space), a prefix per worker in the quick tier; the rest is seeded sampling. Distinct+non-trivial = distinct plans with >=2 steps or a fault that actually fired (plans whose fault was never reached are not counted).",
			"samples":               m.Samples,
			"exhaustive":            exhaustive,
			"exhaustive_core_space": exhaustive,
			"core_space_cases":      enumMerged.Counters["enum_cases"],
			"core_histories":        enumMerged.Counters["enum_histories"],
			"simulated_runs":        m.Runs,
			"simulated_steps":       m.Counters["steps"],
			"runs_per_hour":         int(float64(m.Runs) / wall * 3600),
			"faults_fired_by_kind":  faults,
			"faults_fired":          m.Counters["faults_fired"],
			"probes":                probes,
			"counters":              m.Counters,
			"known_findings_hit":    knownHit,
			"real_vs_stub":          "real: goag.Generate/WriteToFile and everything below, cmd/goag main (CLI-process runs), kernel FS under scratch; stub: package os calls of goag/generator/main routed through a fault-injecting shim; process death = shim dead mode + recovered panic (in-process) or exit 137 (CLI)",
			"determinism_canary":    "64 seeds re-run in 2x2 extra processes: event-log hashes identical",
			"build_s":               b.BuildS,
			"repo_tree_hash":        b.TreeHash,
		},
		Assumptions: []string{
			"a step in which a fault fired is never judged (only user files are checked after it); later fault-free steps are",
			"one fault per faulted step; faults are placed at goag's own os calls (reads by kin-openapi's loader are not faulted)",
			"no fsync semantics: a completed write is durable (the generator never syncs; the property does not speak of power loss)",
			"Go toolchain " + goVersion(),
		}}
	writeEvidence(ev)
	for i, n := range m.Notes {
		if i < 12 {
			fmt.Println("  note:", n)
		}
	}
	fmt.Printf("C19: %d runs (%d core-space cases, exhaustive=%v), %d faults fired, %d unknown violations, %d known; %.0fs\n", m.Runs, enumMerged.Counters["enum_cases"], exhaustive, m.Counters["faults_fired"], unknown, len(knownHit), wall)
	if unknown > 0 {
		return 1
	}
	return 0
}

// ---- replay ----------------------------------------------------------------------------------------

func replayFileGen(path string, prop string) int {
	pb, err := os.ReadFile(path)
	if err != nil {
		die2("%v", err)
	}
	scratch := newScratch()
	defer cleanupScratch()
	b := prepareGen(scratch)
	corpus := genCorpus(true)
	var rp struct {
		FindingKey string `json:"finding_key"`
	}
	json.Unmarshal(pb, &rp)
	key, notes, err := replayGen(b, corpus, pb)
	if err != nil {
		die2("%v", err)
	}
	for _, n := range notes {
		fmt.Println("  | " + n)
	}
	if key == "" {
		fmt.Printf("replay: no violation reproduced (recorded key %s)\n", rp.FindingKey)
		return 0
	}
	fmt.Printf("replay: reproduced finding_key=%s (recorded %s)\n", key, rp.FindingKey)
	fmt.Printf("VIOLATION property=%s replay=%s\n", prop, path)
	return 1
}
