package main

func checkRT(prop, tier string) int        { die2("rtsim not built yet"); return 2 }
func replayFileRT(path, prop string) int   { die2("rtsim not built yet"); return 2 }
func selftest(args []string) int           { die2("selftest not built yet"); return 2 }
