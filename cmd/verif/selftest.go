package main

import (
	"encoding/json"
	"fmt"
	"os"
	"os/exec"
	"path/filepath"
	"sort"
	"strings"
	"time"
)

type seededMeta struct {
	Property string   `json:"property"`
	Also     []string `json:"also_breaks,omitempty"` // other claimed properties this change genuinely breaks
	Needs    string   `json:"needs"`
	Expect   string   `json:"expect,omitempty"` // "holds": a negative control - the property still holds, nothing may fire; "documented-miss": breaks the property, known not to be caught in the quick tier
	Source   string   `json:"source"`
}

// selftest sensitivity [names...]: applies every /verif/seeded/<id>/patch.diff to a scratch copy of
// /repo and runs the claimed checks against it (never against /repo itself).
func selftest(args []string) int {
	if len(args) == 0 {
		usage()
	}
	switch args[0] {
	case "sensitivity":
		return selftestSensitivity(args[1:])
	case "determinism":
		return selftestDeterminism(args[1:])
	}
	usage()
	return 2
}

func selftestSensitivity(args []string) int {
	all := false
	var only []string
	for _, a := range args {
		if a == "--all-properties" {
			all = true
		} else {
			only = append(only, a)
		}
	}
	root := filepath.Join(verifDir, "seeded")
	des, err := os.ReadDir(root)
	if err != nil {
		die2("%v", err)
	}
	self, _ := os.Executable()
	props := []string{"C09", "C10", "C12", "C14", "C19", "C20"}
	type row struct {
		id      string
		results map[string]int
		meta    seededMeta
	}
	var rows []row
	bad := 0
	for _, d := range des {
		if !d.IsDir() {
			continue
		}
		if len(only) > 0 {
			hit := false
			for _, o := range only {
				if strings.Contains(d.Name(), o) {
					hit = true
				}
			}
			if !hit {
				continue
			}
		}
		dir := filepath.Join(root, d.Name())
		var meta seededMeta
		if err := readJSON(filepath.Join(dir, "meta.json"), &meta); err != nil {
			fmt.Printf("%-40s skipped: %v\n", d.Name(), err)
			continue
		}
		scratch, err := os.MkdirTemp("/var/tmp", "verif-mut.")
		if err != nil {
			die2("%v", err)
		}
		if err := copyTree("/repo", scratch, map[string]bool{".git": true}); err != nil {
			die2("%v", err)
		}
		if out, err := run(scratch, os.Environ(), "patch", "-p1", "-s", "-i", filepath.Join(dir, "patch.diff")); err != nil {
			fmt.Printf("%-40s patch does not apply: %s\n", d.Name(), firstLineOf(out))
			os.RemoveAll(scratch)
			bad++
			continue
		}
		r := row{id: d.Name(), results: map[string]int{}, meta: meta}
		todo := []string{meta.Property}
		if all {
			todo = props
		}
		for _, p := range todo {
			cmd := exec.Command(self, "check", p, "--tier", "quick")
			env := os.Environ()
			if p != meta.Property {
				// cross-property runs only look for false alarms: a lighter budget is enough
				env = append(env, "VERIF_RT_RUNS=60000", "VERIF_C12_RUNS=2400", "VERIF_C19_RUNS=1600", "VERIF_C19_ENUM_LIMIT=160")
			}
			cmd.Env = append(env, "VERIF_REPO="+scratch, "VERIF_DIR="+verifDir, "VERIF_EVIDENCE_DIR="+filepath.Join(scratch, ".evidence"), "VERIF_REPLAY_DIR="+filepath.Join(scratch, ".replays"))
			cmd.Dir = verifDir
			t0 := time.Now()
			out, _ := cmd.CombinedOutput()
			code := cmd.ProcessState.ExitCode()
			r.results[p] = code
			expect := 0
			if p == meta.Property && meta.Expect != "holds" {
				expect = 1
			}
			for _, a := range meta.Also {
				if a == p {
					expect = -1 // either is fine
				}
			}
			status := "ok"
			if expect >= 0 && code != expect {
				status = "UNEXPECTED"
				bad++
				if meta.Expect == "documented-miss" && p == meta.Property && (code == 0 || code == 2) {
					// a seeded change the quick tier is known not to catch (DESIGN 13.5/13.6): reported, not counted;
					// exit 2 = the check ended with a harness error on the changed tree (no verdict, also not a catch)
					status = "documented miss"
					if code == 2 {
						status = "documented miss, harness error"
					}
					bad--
				}
			}
			keys := []string{}
			for _, l := range strings.Split(string(out), "\n") {
				if strings.HasPrefix(strings.TrimSpace(l), "finding_key=") {
					keys = append(keys, strings.TrimPrefix(strings.TrimSpace(l), "finding_key="))
				}
				if code == 2 && strings.Contains(l, "HARNESS ERROR") {
					keys = append(keys, clip(l, 300))
				}
			}
			sort.Strings(keys)
			fmt.Printf("%-44s %s exit=%d (%s, %.0fs) %v\n", d.Name(), p, code, status, time.Since(t0).Seconds(), keys)
		}
		rows = append(rows, r)
		os.RemoveAll(scratch)
	}
	b, _ := json.Marshal(rows)
	_ = b
	if bad > 0 {
		fmt.Printf("sensitivity: %d unexpected results\n", bad)
		return 1
	}
	fmt.Println("sensitivity: all as expected")
	return 0
}

// selftest determinism [nseeds]: for VERIF_SEED = 1..nseeds and every claimed property, the same 64 run
// indices are executed in three separate worker processes with GOMAXPROCS 1, 4 and 16; the hash over the
// full per-run event logs (tape, observations, verdicts) must be identical.
func selftestDeterminism(args []string) int {
	nseeds := 3
	if len(args) > 0 {
		fmt.Sscan(args[0], &nseeds)
	}
	bad := 0
	total := 0
	for seed := 1; seed <= nseeds; seed++ {
		os.Setenv("VERIF_SEED", fmt.Sprint(seed))
		scratch := newScratch()
		gb := prepareGen(scratch)
		corpus := genCorpus(true)
		rb := prepareRT(scratch)
		for _, prop := range []string{"C12", "C19", "C09", "C10", "C14", "C20"} {
			var hashes []string
			for _, gmp := range []string{"1", "4", "16"} {
				os.Setenv("VERIF_WORKER_GOMAXPROCS", gmp)
				var h string
				switch prop {
				case "C12", "C19":
					j := genJob{Mode: strings.ToLower(prop) + "det", Seed: uint64(seed), Corpus: corpus, Sites: gb.Report.Sites, CLI: gb.CLI, MaxRuns: 64, ShrinkS: 1, CLIFrac: 100}
					rs, err := runGenJobs(gb, j, 1, 15*time.Minute)
					if err != nil {
						die2("%v", err)
					}
					h = rs[0].LogHash
				default:
					j := rtJob{Mode: "det", Property: prop, Seed: uint64(seed), MaxRuns: 64, Det: true}
					rs, err := runRTJobs(rb, j, 1, 15*time.Minute)
					if err != nil {
						die2("%v", err)
					}
					h = rs[0].LogHash
				}
				hashes = append(hashes, h)
			}
			os.Unsetenv("VERIF_WORKER_GOMAXPROCS")
			ok := hashes[0] == hashes[1] && hashes[1] == hashes[2]
			total += 64
			status := "identical"
			if !ok {
				status = "DIVERGED"
				bad++
			}
			fmt.Printf("seed=%d %s: 64 runs x 3 processes (GOMAXPROCS 1/4/16): %s %v\n", seed, prop, status, hashes)
		}
		cleanupScratch()
	}
	fmt.Printf("determinism: %d run-seeds x 3 processes each, %d divergences\n", total, bad)
	if bad > 0 {
		return 1
	}
	return 0
}
