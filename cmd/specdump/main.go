// specdump prints the seeded G specs (diagnostics): specdump <seed> [index]
package main

import (
	"fmt"
	"os"
	"strconv"

	"verif/internal/specgen"
)

func main() {
	seed, _ := strconv.ParseUint(os.Args[1], 10, 64)
	from, to := 0, 30
	if len(os.Args) > 2 {
		from, _ = strconv.Atoi(os.Args[2])
		to = from + 1
	}
	for i := from; i < to; i++ {
		name, text, cfg := specgen.Generate(seed, i)
		fmt.Printf("### %s config=%q\n%s\n", name, cfg, text)
	}
}
