// Package verifhook is what rewritten code of the system under simulation calls.
// It is std-only plus the tape. All state is process-global and reset per run by
// the drivers; the code under simulation is only ever executed by one released
// goroutine at a time.
package verifhook

import (
	"context"
	"fmt"
	"math/rand/v2"
	"sort"
	"sync"
	"time"

	"github.com/vkd/goag/verifrt/tape"
)

type SiteStat struct {
	Execs    int            // times the site was executed
	MaxLen   int            // largest map seen
	Deviated int            // executions in which a non-identity order was applied
	Orders   map[string]int // distinct orders applied (as permutation strings), capped
	Uncanon  bool           // key type without canonical order
}

var (
	mu sync.Mutex
	// T is the tape map orders are drawn from; nil = sorted order everywhere.
	T *tape.Tape
	// Active is the set of sites allowed to deviate from sorted order in this run (nil = all).
	Active map[int]bool
	// Masked sites are always sorted (used to look past known findings).
	Masked map[int]bool
	Stats  = map[int]*SiteStat{}
	// RunDeviated lists sites that received a non-identity permutation in the current run.
	RunDeviated = map[int]bool{}
	// SiteSeeds, when non-nil, gives every site its own permutation seed for this run (0 = sorted order).
	SiteSeeds map[int]uint32
	siteExec  = map[int]int{}
	// RunSeen maps every site executed in the current run to the largest map it saw.
	RunSeen = map[int]int{}
	// EventLog, if non-nil, receives one line per hook event of the current run.
	EventLog func(string)
	// Clock is the simulated wall clock.
	Clock = time.Date(2026, 1, 2, 3, 4, 5, 6, time.UTC)
	// Ambient != 0 simulates "another machine / another process": pid, hostname and every environment
	// variable other than the documented TEMPLATE_DEBUG read through the os shim are perturbed.
	Ambient int
	// Templates records names passed to the template probe.
	Templates = map[string]int{}
)

// ResetRun clears per-run state.
func ResetRun(t *tape.Tape, active map[int]bool) {
	mu.Lock()
	defer mu.Unlock()
	T = t
	Active = active
	RunDeviated = map[int]bool{}
	RunSeen = map[int]int{}
	siteExec = map[int]int{}
	SiteSeeds = nil
	resetSched()
}

func less(a, b any) (bool, bool) {
	switch x := a.(type) {
	case string:
		return x < b.(string), true
	case int:
		return x < b.(int), true
	case int64:
		return x < b.(int64), true
	case int32:
		return x < b.(int32), true
	case uint:
		return x < b.(uint), true
	case uint64:
		return x < b.(uint64), true
	case float64:
		return x < b.(float64), true
	case bool:
		return !x && b.(bool), true
	}
	return fmt.Sprintf("%#v", a) < fmt.Sprintf("%#v", b), false
}

func order[K comparable](site int, keys []K) []K {
	mu.Lock()
	defer mu.Unlock()
	canon := true
	sort.SliceStable(keys, func(i, j int) bool {
		l, c := less(any(keys[i]), any(keys[j]))
		if !c {
			canon = false
		}
		return l
	})
	st := Stats[site]
	if st == nil {
		st = &SiteStat{Orders: map[string]int{}}
		Stats[site] = st
	}
	st.Execs++
	if len(keys) > st.MaxLen {
		st.MaxLen = len(keys)
	}
	if !canon {
		st.Uncanon = true
	}
	if len(keys) > RunSeen[site] || RunSeen[site] == 0 {
		RunSeen[site] = len(keys)
	}
	if len(keys) < 2 || Masked[site] || (Active != nil && !Active[site]) {
		return keys
	}
	var p []int
	if SiteSeeds != nil {
		// every site has its own seed (fixed tape position): pinning one site to sorted order (seed 0) does not
		// shift the choices of any other site, so shrinking isolates the sites that matter
		seed := SiteSeeds[site]
		if seed == 0 {
			return keys
		}
		siteExec[site]++
		r := rand.New(rand.NewPCG(uint64(seed), uint64(site)<<20|uint64(siteExec[site])))
		p = make([]int, len(keys))
		for i := range p {
			p[i] = i
		}
		for i := 0; i < len(p)-1; i++ {
			j := i + r.IntN(len(p)-i)
			p[i], p[j] = p[j], p[i]
		}
	} else if T != nil {
		p = T.Perm(len(keys), "maporder")
	} else {
		return keys
	}
	ident := true
	for i, v := range p {
		if i != v {
			ident = false
		}
	}
	if ident {
		return keys
	}
	out := make([]K, len(keys))
	for i, v := range p {
		out[i] = keys[v]
	}
	st.Deviated++
	RunDeviated[site] = true
	if len(st.Orders) < 64 {
		st.Orders[fmt.Sprint(p)]++
	}
	if EventLog != nil {
		EventLog(fmt.Sprintf("maporder site=%d perm=%v", site, p))
	}
	return out
}

// Keys returns the keys of m in the order the simulator chose for this site.
func Keys[M ~map[K]V, K comparable, V any](site int, m M) []K {
	keys := make([]K, 0, len(m))
	for k := range m {
		keys = append(keys, k)
	}
	return order(site, keys)
}

// MapsKeys replaces golang.org/x/exp/maps.Keys.
func MapsKeys[M ~map[K]V, K comparable, V any](site int, m M) []K { return Keys(site, m) }

// MapsValues replaces golang.org/x/exp/maps.Values.
func MapsValues[M ~map[K]V, K comparable, V any](site int, m M) []V {
	ks := Keys(site, m)
	out := make([]V, 0, len(ks))
	for _, k := range ks {
		out = append(out, m[k])
	}
	return out
}

// ZeroKV returns zero values of m's key and element types (declares loop variables).
func ZeroKV[M ~map[K]V, K comparable, V any](m M) (k K, v V) { return }

func TimeNow() time.Time {
	mu.Lock()
	defer mu.Unlock()
	Clock = Clock.Add(time.Microsecond)
	return Clock
}
func TimeSince(t time.Time) time.Duration { return TimeNow().Sub(t) }
func TimeUntil(t time.Time) time.Duration { return t.Sub(TimeNow()) }

// Template is the template-coverage probe.
func Template(name string) { mu.Lock(); Templates[name]++; mu.Unlock() }

// ---- timers ------------------------------------------------------------------------------------------
// Stall simulates a process that is frozen or starved of CPU at the worst moment: every timer, sleep or
// deadline the generator sets has already expired when it is consulted, so it wins any race against work
// still in progress. With Stall off, timers are the real ones (which real work practically always beats).

var Stall bool

func TimeAfter(d time.Duration) <-chan time.Time {
	if Stall {
		c := make(chan time.Time, 1)
		c <- TimeNow().Add(d)
		return c
	}
	return time.After(d)
}

func TimeTick(d time.Duration) <-chan time.Time {
	if Stall {
		return time.Tick(time.Nanosecond)
	}
	return time.Tick(d)
}

func TimeNewTimer(d time.Duration) *time.Timer {
	if Stall {
		return time.NewTimer(0)
	}
	return time.NewTimer(d)
}

func TimeNewTicker(d time.Duration) *time.Ticker {
	if Stall {
		return time.NewTicker(time.Nanosecond)
	}
	return time.NewTicker(d)
}

func TimeAfterFunc(d time.Duration, f func()) *time.Timer {
	if Stall {
		return time.AfterFunc(0, f)
	}
	return time.AfterFunc(d, f)
}

// TimeSleep advances the simulated clock instead of sleeping.
func TimeSleep(d time.Duration) {
	mu.Lock()
	Clock = Clock.Add(d)
	mu.Unlock()
}

func CtxWithTimeout(parent context.Context, d time.Duration) (context.Context, context.CancelFunc) {
	if Stall {
		return context.WithTimeout(parent, 0)
	}
	return context.WithTimeout(parent, d)
}

func CtxWithDeadline(parent context.Context, t time.Time) (context.Context, context.CancelFunc) {
	if Stall {
		return context.WithDeadline(parent, time.Unix(0, 0))
	}
	return context.WithDeadline(parent, t)
}
