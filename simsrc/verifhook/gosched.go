package verifhook

import (
	"bytes"
	"fmt"
	"reflect"
	"runtime"
	"strconv"
	"sync/atomic"
	"time"
)

// spin is the scheduler's own lock: a goroutine waiting for it shows as runnable in a goroutine dump, never as
// blocked, so it cannot be mistaken for a task blocked inside one of its own operations.
type spin struct{ v int32 }

func (s *spin) Lock() {
	for !atomic.CompareAndSwapInt32(&s.v, 0, 1) {
		runtime.Gosched()
	}
}
func (s *spin) Unlock() { atomic.StoreInt32(&s.v, 0) }

// Scheduler for goroutines that the system under simulation starts itself.
//
// The rewriter turns `go f(x)` into Go(func(){ f(x) }) and brackets every statement that may block on
// another goroutine (channel send/receive, range over a channel, select, Mutex/RWMutex lock, WaitGroup.Wait,
// Cond.Wait, Once.Do) with Pre()/Post(). Tasks are real goroutines and the blocking operations are the real
// ones - the runtime supplies their semantics - but exactly one task holds the token at any time, and who gets
// it next is drawn from the tape. A task that blocks inside a bracketed operation loses the token; when the
// operation completes it parks in Post() until it is picked again. The scheduler only ever picks when the
// system is quiescent: every task is parked, finished, or observed (in a stop-the-world goroutine dump) to be
// blocked inside a bracketed operation. Hence the interleaving is a pure function of the tape, although the
// waiting itself is real.

const (
	gRunning = iota // holds the token
	gReady          // parked, wants the token
	gInOp           // inside a bracketed operation (with the token until found blocked)
	gDone
)

type gtask struct {
	id      int
	gid     int64
	state   int
	wake    chan struct{}
	wantOp  bool // picked next => enters the operation (state gInOp) rather than plain running
	isMain  bool
	bound   chan struct{}
	waiting bool // polled a select without success: not worth picking before somebody else has run
	waitGen int
}

var gs struct {
	mu       spin
	on       bool // at least one Go() happened in this run
	gaveUp   bool // the scheduler stopped controlling this run (deadlock it cannot explain, foreign goroutines)
	tasks    []*gtask
	holder   *gtask
	kick     chan struct{}
	started  bool
	draining *gtask
	drainCh  chan struct{}
	born     *gtask // created by Spawn(), not yet bound to its goroutine
	gen      int    // number of hand-overs of the token so far
	off      bool   // the scheduler is not used in this process (CLI child): goroutines run free
}

// SchedOff makes Spawn/Run/Pre/Post no-ops for the rest of the process.
func SchedOff() { gs.mu.Lock(); gs.off = true; gs.mu.Unlock() }

// Per-run observations (reset by ResetRun).
var (
	SchedPicks     int    // scheduling decisions with more than one candidate
	SchedDeviated  int    // ... of which did not pick the first candidate
	SchedTasks     int    // goroutines started through Go()
	SchedGaveUp    string // why the scheduler let go of the run ("" = it did not)
	SchedForeign   int    // bracketed operations executed by goroutines the scheduler does not know
	TaskPanic      string // a panic inside a started goroutine (would kill the real process)
	SchedTrace     []string
	SelectDeviated int // selects whose cases were polled in another than the source order
	// SchedFixed: always the first candidate / source order (runs that are compared call by call with the baseline,
	// e.g. "the same I/O error at the k-th file operation", need the baseline's schedule)
	SchedFixed     bool
	NumCPUOverride = []int{4, 1, 16}
)

func resetSched() {
	gs.mu.Lock()
	gs.on, gs.gaveUp, gs.tasks, gs.holder, gs.draining, gs.born = false, false, nil, nil, nil, nil
	gs.mu.Unlock()
	SchedPicks, SchedDeviated, SchedTasks, SchedGaveUp, SchedForeign, TaskPanic, SchedTrace, SelectDeviated = 0, 0, 0, "", 0, "", nil, 0
}

// NumCPU replaces runtime.NumCPU() and runtime.GOMAXPROCS(0): part of the ambient environment.
func NumCPU() int { return NumCPUOverride[Ambient%len(NumCPUOverride)] }

func curGID() int64 {
	var buf [64]byte
	n := runtime.Stack(buf[:], false)
	// "goroutine 123 ["
	b := buf[:n]
	b = bytes.TrimPrefix(b, []byte("goroutine "))
	if i := bytes.IndexByte(b, ' '); i > 0 {
		id, _ := strconv.ParseInt(string(b[:i]), 10, 64)
		return id
	}
	return -1
}

func curTask() *gtask {
	id := curGID()
	for _, t := range gs.tasks {
		if t.gid == id && t.state != gDone {
			return t
		}
	}
	return nil
}

func init() {
	gs.mu.Lock()
	ensureStarted() // the scheduler goroutine exists from the start, so goroutine counts taken by the drivers are stable
	gs.mu.Unlock()
}

func ensureStarted() {
	if !gs.started {
		gs.started = true
		gs.kick = make(chan struct{}, 1)
		go schedLoop()
	}
}

func kick() {
	select {
	case gs.kick <- struct{}{}:
	default:
	}
}

// Spawn is called by the parent right before its `go` statement: it creates the task record.
func Spawn() {
	gs.mu.Lock()
	defer gs.mu.Unlock()
	if gs.gaveUp || gs.off {
		return
	}
	ensureStarted()
	if !gs.on {
		gs.on = true
		m := &gtask{id: 0, gid: curGID(), state: gRunning, wake: make(chan struct{}), isMain: true}
		gs.tasks = []*gtask{m}
		gs.holder = m
	}
	if curTask() == nil {
		SchedForeign++
		return
	}
	t := &gtask{id: len(gs.tasks), state: gReady, wake: make(chan struct{}), bound: make(chan struct{})}
	gs.tasks = append(gs.tasks, t)
	gs.born = t
	SchedTasks++
}

// Run is what the rewritten `go` statement starts: `go f(a, b)` became `go verifhook.Run(f, a, b)`, so f and its
// arguments are still evaluated by the parent, at the go statement.
func Run(f any, args ...any) {
	gs.mu.Lock()
	t := gs.born
	gs.born = nil
	if t != nil {
		t.gid = curGID()
		close(t.bound)
	}
	gs.mu.Unlock()
	if t != nil {
		<-t.wake
		defer func() {
			if r := recover(); r != nil {
				gs.mu.Lock()
				if TaskPanic == "" {
					TaskPanic = fmt.Sprint(r)
				}
				gs.mu.Unlock()
			}
			gs.mu.Lock()
			t.state = gDone
			if gs.holder == t {
				gs.holder = nil
			}
			gs.mu.Unlock()
			kick()
		}()
	}
	if t == nil {
		// not a task (the scheduler has let go of the run): a panic here - an injected crash of the disk shim, say -
		// must still not take the simulator's process down
		defer func() {
			if r := recover(); r != nil {
				gs.mu.Lock()
				if TaskPanic == "" {
					TaskPanic = fmt.Sprint(r)
				}
				gs.mu.Unlock()
			}
		}()
	}
	if fn, ok := f.(func()); ok && len(args) == 0 {
		fn()
		return
	}
	fv := reflect.ValueOf(f)
	ft := fv.Type()
	in := make([]reflect.Value, len(args))
	for i, a := range args {
		var pt reflect.Type
		switch {
		case ft.IsVariadic() && i >= ft.NumIn()-1:
			pt = ft.In(ft.NumIn() - 1).Elem()
		default:
			pt = ft.In(i)
		}
		v := reflect.ValueOf(a)
		switch {
		case !v.IsValid():
			v = reflect.Zero(pt)
		case !v.Type().AssignableTo(pt) && v.Type().ConvertibleTo(pt):
			v = v.Convert(pt) // an untyped constant arrived with its default type
		}
		in[i] = v
	}
	fv.Call(in)
}

// Spawned is called by the parent right after its `go` statement: the child is bound to its task before anything
// else happens, then the scheduler decides who goes on.
func Spawned() {
	gs.mu.Lock()
	if gs.gaveUp || gs.off || !gs.on {
		gs.mu.Unlock()
		return
	}
	var t *gtask
	if n := len(gs.tasks); n > 0 {
		t = gs.tasks[n-1]
	}
	gs.mu.Unlock()
	if t != nil && t.bound != nil {
		<-t.bound
	}
	yield(false) // the new task may run first
}

// yield gives the token up and waits to be picked again.
func yield(op bool) {
	gs.mu.Lock()
	if !gs.on || gs.gaveUp || gs.off {
		gs.mu.Unlock()
		return
	}
	t := curTask()
	if t == nil {
		SchedForeign++
		gs.mu.Unlock()
		return
	}
	if gs.holder != t {
		// a task running without the token (it came out of a blocking operation that was not bracketed)
		gs.mu.Unlock()
		return
	}
	t.state, t.wantOp = gReady, op
	gs.holder = nil
	gs.mu.Unlock()
	kick()
	<-t.wake
}

// Pre: the statement that follows may block on another task.
func Pre() { yield(true) }

// Post: the bracketed statement has completed.
func Post() {
	gs.mu.Lock()
	if !gs.on || gs.gaveUp {
		gs.mu.Unlock()
		return
	}
	t := curTask()
	if t == nil {
		gs.mu.Unlock()
		return
	}
	if gs.holder == t {
		t.state = gRunning
		gs.mu.Unlock()
		return
	}
	// the token was taken away while the task was blocked
	t.state, t.wantOp = gReady, false
	gs.mu.Unlock()
	kick()
	<-t.wake
}

// TasksAlive reports how many started goroutines have not finished.
func TasksAlive() int {
	gs.mu.Lock()
	defer gs.mu.Unlock()
	n := 0
	for _, t := range gs.tasks {
		if !t.isMain && t.state != gDone {
			n++
		}
	}
	return n
}

// Drain is called by the driver after the system under simulation returned: the remaining tasks run, under the
// same scheduler, until all have finished or the scheduler gives up.
func Drain() {
	gs.mu.Lock()
	if !gs.on || gs.gaveUp {
		gs.mu.Unlock()
		return
	}
	t := curTask()
	if t == nil || !t.isMain {
		gs.mu.Unlock()
		return
	}
	gs.draining = t
	gs.drainCh = make(chan struct{})
	t.state = gDone
	if gs.holder == t {
		gs.holder = nil
	}
	ch := gs.drainCh
	gs.mu.Unlock()
	kick()
	<-ch
}

// othersActive is set by blockedStates: goroutines that are neither parked nor blocked on a channel/lock, not
// counting the caller - worker goroutines of a library, a pending system call, a sleeping timer goroutine.
var othersActive int

func blockedStates() map[int64]bool {
	othersActive = -1 // the caller itself is "running"
	buf := make([]byte, 1<<16)
	for {
		n := runtime.Stack(buf, true)
		if n < len(buf) {
			buf = buf[:n]
			break
		}
		buf = make([]byte, 2*len(buf))
	}
	out := map[int64]bool{}
	for _, line := range bytes.Split(buf, []byte("\n")) {
		if !bytes.HasPrefix(line, []byte("goroutine ")) {
			continue
		}
		rest := line[len("goroutine "):]
		i := bytes.IndexByte(rest, ' ')
		j := bytes.IndexByte(rest, '[')
		if i < 0 || j < 0 {
			continue
		}
		id, err := strconv.ParseInt(string(rest[:i]), 10, 64)
		if err != nil {
			continue
		}
		st := rest[j+1:]
		blocked := false
		for _, p := range []string{"chan receive", "chan send", "select", "sync.", "semacquire"} {
			if bytes.HasPrefix(st, []byte(p)) {
				blocked = true
			}
		}
		out[id] = blocked
		for _, p := range []string{"running", "runnable", "syscall", "sleep", "IO wait"} {
			if bytes.HasPrefix(st, []byte(p)) {
				othersActive++
			}
		}
	}
	return out
}

func schedLoop() {
	idleSince := time.Time{}
	lastRunCheck := time.Now()
	runBlocked := 0
	for {
		select {
		case <-gs.kick:
		case <-time.After(200 * time.Microsecond):
		}
		gs.mu.Lock()
		if !gs.on || gs.gaveUp {
			gs.mu.Unlock()
			idleSince = time.Time{}
			continue
		}
		var dump map[int64]bool
		if h := gs.holder; h != nil {
			if h.state != gInOp {
				// running. If it is in fact blocked - on an operation the rewriter did not bracket - while other
				// tasks could run, nothing would ever move: after a second of that, let go of the run.
				others := false
				for _, t := range gs.tasks {
					if t != h && t.state == gReady {
						others = true
					}
				}
				if others && time.Since(lastRunCheck) > 50*time.Millisecond {
					lastRunCheck = time.Now()
					if blockedStates()[h.gid] && othersActive <= 0 {
						// blocked, and nothing else in the process is at work that could be what it waits for
						runBlocked++
						if runBlocked >= 20 {
							giveUpLocked("the running task is blocked on an operation that was not bracketed")
						}
					} else {
						runBlocked = 0
					}
				}
				gs.mu.Unlock()
				idleSince = time.Time{}
				continue
			}
			runBlocked = 0
			dump = blockedStates()
			if !dump[h.gid] {
				gs.mu.Unlock()
				continue // inside the operation but not (yet) blocked
			}
			gs.holder = nil // blocked inside a bracketed operation: the token is free
		}
		// the token is free: is every task at rest?
		stable := true
		var ready []*gtask
		alive, inop, parkedWaiting := 0, 0, 0
		repoll := !idleSince.IsZero() && time.Since(idleSince) > time.Millisecond // nothing else can run: let pollers look again (real timers)
		for _, t := range gs.tasks {
			switch t.state {
			case gReady:
				if t.waiting && t.waitGen == gs.gen && !repoll {
					parkedWaiting++
				} else {
					ready = append(ready, t)
				}
				alive++
			case gInOp:
				if dump == nil {
					dump = blockedStates()
				}
				if !dump[t.gid] {
					stable = false // on its way to Post()
				}
				alive++
				inop++
			case gRunning:
				stable = false // cannot be: nobody holds the token
			}
		}
		if !stable {
			gs.mu.Unlock()
			continue
		}
		if alive == 0 {
			if gs.draining != nil {
				close(gs.drainCh)
				gs.draining = nil
			}
			gs.on = false
			gs.mu.Unlock()
			continue
		}
		if len(ready) == 0 {
			// every live task is blocked inside an operation: a deadlock, or something outside (a timer, a goroutine
			// of a library) is going to wake one of them. Give it a moment of real time, then let go of the run.
			if idleSince.IsZero() {
				idleSince = time.Now()
			}
			if blockedStates(); othersActive > 0 {
				idleSince = time.Now() // a library goroutine, a system call or a timer is still at work
			}
			if time.Since(idleSince) > 2*time.Second && parkedWaiting == 0 {
				giveUpLocked(fmt.Sprintf("all %d live tasks blocked inside operations and nothing woke them for 2s", inop))
			}
			if time.Since(idleSince) > 20*time.Second {
				giveUpLocked("tasks polling selects that never become ready")
			}
			gs.mu.Unlock()
			continue
		}
		idleSince = time.Time{}
		// when the system under simulation has returned, its main task no longer takes part
		idx := 0
		if len(ready) > 1 {
			SchedPicks++
			if T != nil && !SchedFixed {
				idx = T.Choose(len(ready), "go-sched")
			}
			if idx != 0 {
				SchedDeviated++
			}
		}
		t := ready[idx]
		if len(SchedTrace) < 400 {
			SchedTrace = append(SchedTrace, fmt.Sprintf("pick task %d of %d ready", t.id, len(ready)))
		}
		if t.wantOp {
			t.state = gInOp
		} else {
			t.state = gRunning
		}
		gs.holder = t
		gs.gen++
		t.waiting = false
		gs.mu.Unlock()
		t.wake <- struct{}{}
	}
}

func giveUpLocked(why string) {
	gs.gaveUp = true
	SchedGaveUp = why
	for _, t := range gs.tasks {
		if t.state == gReady {
			t.state = gRunning
			go func(t *gtask) { t.wake <- struct{}{} }(t)
		}
	}
	if gs.draining != nil {
		close(gs.drainCh)
		gs.draining = nil
	}
}

// Select performs the communication of a rewritten select statement (see internal/instr/genconc.go): ready cases are
// tried one by one, non-blocking, in an order drawn from the tape; if none is ready the result is -1 when the
// statement has a default clause, otherwise one real select over all cases blocks until one can proceed.
func Select(hasDefault bool, cases ...reflect.SelectCase) (int, any, bool) {
	order := selectOrder(len(cases))
	for _, i := range order {
		if chosen, recv, ok := reflect.Select([]reflect.SelectCase{cases[i], {Dir: reflect.SelectDefault}}); chosen == 0 {
			return i, ifaceOf(recv), ok
		}
	}
	if hasDefault {
		return -1, nil, false
	}
	i, recv, ok := reflect.Select(cases)
	return i, ifaceOf(recv), ok
}

func ifaceOf(v reflect.Value) any {
	if !v.IsValid() || !v.CanInterface() {
		return nil
	}
	return v.Interface()
}

func CaseRecv[T any](ch <-chan T) reflect.SelectCase {
	return reflect.SelectCase{Dir: reflect.SelectRecv, Chan: reflect.ValueOf(ch)}
}

func CaseSend[T any](ch chan<- T, x T) reflect.SelectCase {
	return reflect.SelectCase{Dir: reflect.SelectSend, Chan: reflect.ValueOf(ch), Send: reflect.ValueOf(&x).Elem()}
}

// Val gives the received value its static type back.
func Val[T any](ch <-chan T, v any) T {
	if t, ok := v.(T); ok {
		return t
	}
	var z T
	return z
}

func selectOrder(n int) []int {
	order := make([]int, n)
	for i := range order {
		order[i] = i
	}
	gs.mu.Lock()
	on := gs.on && !gs.gaveUp && !gs.off && len(gs.tasks) > 1
	gs.mu.Unlock()
	if on && T != nil && n > 1 && !SchedFixed {
		for i := 0; i < n-1; i++ {
			if j := i + T.Choose(n-i, "select-order"); j != i {
				order[i], order[j] = order[j], order[i]
				SelectDeviated++
			}
		}
	}
	return order
}
