package main

import (
	"encoding/json"
	"fmt"
	"hash/fnv"
	"os"
	"path/filepath"
	"sort"
	"strings"
	"time"

	"github.com/vkd/goag/verifrt/gencore"
	"github.com/vkd/goag/verifrt/tape"
	"github.com/vkd/goag/verifrt/verifhook"
)

type baseline struct {
	files map[string]string
	err   string
	panic string
	cands []int // sites that saw >= 2 keys in the sorted run
}

type c12env struct {
	job      *Job
	res      *Result
	root     string
	base     map[string]*baseline
	sites    map[int]SiteInfo
	distinct map[uint64]bool
	dirN     int
	logH     uint64
	masked   []int
}

// offsets from the simulated base clock 2026-01-02T03:04:05.000000006Z: a tick, a day, a jump back, a year, and
// the instants just before a minute / hour / day / month / year rolls over
var clockOffsets = []time.Duration{0, 1, 24 * time.Hour, -time.Hour, 365 * 24 * time.Hour,
	54*time.Second + 999*time.Millisecond,                                          // 03:04:59.999
	55*time.Minute + 54*time.Second + 999*time.Millisecond,                         // 03:59:59.999
	20*time.Hour + 55*time.Minute + 54*time.Second + 999*time.Millisecond,          // 23:59:59.999
	(29*24+20)*time.Hour + 55*time.Minute + 54*time.Second + 999*time.Millisecond,  // Jan 31 23:59:59.999
	(363*24+20)*time.Hour + 55*time.Minute + 54*time.Second + 999*time.Millisecond, // Dec 31 23:59:59.999
	-(2*24 + 3) * time.Hour, // previous year
}
var historyNames = []string{"fresh", "repeat-in-process", "after-other-spec", "separate-process", "dir-mode-after-sibling"}

func newC12(job *Job, res *Result) *c12env {
	e := &c12env{job: job, res: res, root: job.Scratch, base: map[string]*baseline{}, sites: map[int]SiteInfo{}, distinct: map[uint64]bool{}}
	for _, s := range job.Sites {
		e.sites[s.ID] = s
	}
	return e
}

func (e *c12env) freshDirs() (in, out string) {
	e.dirN++
	d := filepath.Join(e.root, fmt.Sprintf("r%d", e.dirN))
	return filepath.Join(d, "in"), filepath.Join(d, "out")
}

func (e *c12env) cleanup() {
	os.RemoveAll(filepath.Join(e.root, fmt.Sprintf("r%d", e.dirN)))
}

func (e *c12env) baseline(inv gencore.Invocation) *baseline { return e.baselineF(inv, -1, "") }

// baselineF is the sorted-order fresh run of inv with the given I/O error injected (faultAt < 0: none).
func (e *c12env) baselineF(inv gencore.Invocation, faultAt int, kind string) *baseline {
	k := inv.Hash() + fmt.Sprintf("/%d/%s", faultAt, kind)
	if b, ok := e.base[k]; ok {
		return b
	}
	in, out := e.freshDirs()
	// sorted order everywhere: a zero tape
	verifhook.Masked = nil
	r := gencore.RunInProcess(inv, in, out, gencore.Sched{Tape: tape.Zero(), FaultAt: faultAt, Kind: kind, TornNum: 1, TornDen: 2}, e.root)
	b := &baseline{files: gencore.Snapshot(out), err: r.Err, panic: r.Panic}
	for id, n := range r.Seen {
		if n >= 2 {
			b.cands = append(b.cands, id)
		}
	}
	sort.Ints(b.cands)
	os.RemoveAll(filepath.Dir(in))
	e.base[k] = b
	e.res.Counters["baselines"]++
	if b.err != "" {
		e.res.Counters["baseline_generation_errors"]++
	}
	return b
}

func pickInvocation(job *Job, run int) (gencore.Invocation, *gencore.Invocation) {
	t := tape.NewGen(job.Seed, "C12-inv", uint64(run))
	mk := func() gencore.Invocation {
		c := job.Corpus[t.Choose(len(job.Corpus), "corpus")]
		inv := gencore.Invocation{Corpus: c.Name, SpecName: c.SpecName, Spec: c.Spec, HasConfig: c.HasConfig, Config: c.Config}
		if !inv.HasConfig && t.Choose(3, "cors-config") == 0 {
			inv.HasConfig, inv.Config = true, "cors:\n  enable: true\n"
		}
		inv.GenClient = t.Choose(2, "client") == 1
		inv.APIHandler = t.Choose(8, "api") != 0
		inv.DoNotEdit = t.Choose(2, "dne") == 1
		inv.BasePath = []string{"", "", "/v1", "/a/b/"}[t.Choose(4, "bp")]
		inv.Package = []string{"test", "api"}[t.Choose(2, "pkg")]
		inv.SpecHandler = []string{"openapi.yaml", "", "spec.json"}[t.Choose(3, "sh")]
		return inv
	}
	a := mk()
	b := mk()
	return a, &b
}

type c12outcome struct {
	violated    bool
	class       string // differs | outcome
	detail      string
	deviated    []int
	h           int
	toff        time.Duration
	ambient     int
	late        bool
	faultAt     int
	faultKind   string
	stall       bool // timers set by the generator have already expired when consulted
	sched       int  // scheduling decisions among the generator's own goroutines that did not take the first candidate
	schedTasks  int
	gaveUp      string
	inputsOlder bool // dirstate 2: spec and config of the judged invocation carry older file times than the stale output
	dirstate    int  // 0 empty out dir, 1 user Go files of the same package already there, 2 stale output of another invocation there
	events      []string
	skipped     string
}

// execC12 runs one C12 case from the given tape.
func (e *c12env) execC12(inv gencore.Invocation, other *gencore.Invocation, t *tape.Tape) c12outcome {
	var o c12outcome
	b := e.baseline(inv)
	plain := b
	regime := t.Choose(3, "regime")
	var active map[int]bool
	switch regime {
	case 0:
		active = map[int]bool{}
		if len(b.cands) > 0 {
			active[b.cands[t.Choose(len(b.cands), "site")]] = true
		}
	case 1:
		active = map[int]bool{}
		for _, id := range b.cands {
			if t.Flip(1, 3, "site-active") {
				active[id] = true
			}
		}
	}
	// one permutation seed per site at a fixed tape position (0 = sorted)
	seeds := map[int]uint32{}
	ids := make([]int, 0, len(e.sites))
	for id := range e.sites {
		ids = append(ids, id)
	}
	sort.Ints(ids)
	for _, id := range ids {
		v := uint32(t.Choose(1<<16, "site-seed"))
		if active == nil || active[id] {
			seeds[id] = v
		}
	}
	o.h = t.Choose(5, "history")
	if o.h == 3 && e.job.CLI == "" {
		o.h = 0
	}
	if o.h == 4 && (other == nil || inv.HasConfig != inv.HasConfig) {
		o.h = 0
	}
	o.toff = clockOffsets[t.Choose(len(clockOffsets), "clock")]
	o.ambient = t.Choose(3, "ambient")
	o.dirstate = t.Choose(3, "outdir-state")
	o.stall = t.Choose(4, "stalled-process") == 1
	o.faultAt, o.faultKind = -1, ""
	if fk := t.Choose(8, "disk-fault"); fk >= 6 {
		// the same I/O error at the same call in both runs: what a failing run reports and leaves behind must be reproducible too
		o.faultKind = []string{"error", "short_write"}[fk-6]
		o.faultAt = t.Choose(24, "fault-at")
	}
	if o.faultAt >= 0 && (o.h == 3 || o.h == 4) {
		o.faultAt, o.faultKind = -1, "" // disk faults are combined with the in-process histories only
	}
	if o.faultAt >= 0 {
		b = e.baselineF(inv, o.faultAt, o.faultKind)
		o.dirstate = 0
		o.ambient = 0 // the processor count may change how many goroutines issue file operations, hence which one is the k-th
	}
	_ = plain
	verifhook.Masked = map[int]bool{}
	for _, m := range e.masked {
		verifhook.Masked[m] = true
	}
	defer func() { verifhook.Masked = nil }()

	in, out := e.freshDirs()
	defer os.RemoveAll(filepath.Dir(in))
	switch o.dirstate {
	case 1:
		os.MkdirAll(out, 0o755)
		os.WriteFile(filepath.Join(out, "zz_user_logging.go"), []byte(siblingSource(inv.Package)), 0o644)
	case 2:
		if other != nil {
			// half of the time the inputs of the judged invocation are on disk *before* the stale output is produced
			// (spec written, generated with other flags / another spec into the same directory, generated again without
			// touching the spec): file times then say "output newer than input", which is what a make-style
			// "skip when up to date" shortcut looks at
			if t.Flip(1, 2, "inputs-older-than-stale-output") {
				inv.Materialise(in)
				o.inputsOlder = true
			}
			oin := filepath.Join(filepath.Dir(in), "other-in")
			gencore.RunInProcess(*other, oin, out, gencore.Sched{Tape: tape.Zero(), FaultAt: -1}, e.root)
		}
	}
	var r gencore.Result
	switch o.h {
	case 1:
		n := 1 + t.Choose(2, "repeats")
		for i := 0; i < n; i++ {
			pin, pout := e.freshDirs()
			gencore.RunInProcess(inv, pin, pout, gencore.Sched{Tape: tape.Zero(), FaultAt: -1}, e.root)
			os.RemoveAll(filepath.Dir(pin))
		}
	case 2:
		if other != nil {
			pin, pout := e.freshDirs()
			gencore.RunInProcess(*other, pin, pout, gencore.Sched{Tape: tape.Zero(), FaultAt: -1}, e.root)
			os.RemoveAll(filepath.Dir(pin))
		}
	}
	if o.h == 4 {
		// -dir mode: a sibling sub-directory (the other spec, same flags) is generated first in the same call
		sib := *other
		sib.GenClient, sib.APIHandler, sib.DoNotEdit, sib.Package, sib.BasePath, sib.SpecHandler = inv.GenClient, inv.APIHandler, inv.DoNotEdit, inv.Package, inv.BasePath, inv.SpecHandler
		rootDir := filepath.Join(filepath.Dir(in), "tree")
		r = gencore.RunDirInProcess([]gencore.Invocation{sib, inv}, []string{"a_sibling", "b_target"}, rootDir, gencore.Sched{Tape: t, Active: active, SiteSeeds: seeds, ClockOffset: o.toff, Ambient: o.ambient, Stall: o.stall}, e.root)
		out = filepath.Join(rootDir, "b_target", "out")
		if r.Err != "" && !strings.Contains(r.Err, "b_target") {
			// the sibling failed to generate: -dir mode stops there; nothing to compare for the target
			o.skipped = "dir_mode_sibling_failed"
			return o
		}
	} else if o.h == 3 {
		vals := make([]uint32, 48)
		for i := range vals {
			vals[i] = uint32(t.Choose(5040, "cli-order"))
		}
		r = gencore.RunCLI(e.job.CLI, inv, in, out, gencore.Sched{Active: active, SiteSeeds: seeds, ClockOffset: o.toff, FaultAt: -1, Ambient: o.ambient, Stall: o.stall}, vals, e.masked, filepath.Join(filepath.Dir(in), "plan.json"))
		for _, v := range vals {
			if v != 0 {
				// attribution is not available from the child; deviated stays empty unless the log says so
				break
			}
		}
	} else {
		r = gencore.RunInProcess(inv, in, out, gencore.Sched{Tape: t, Active: active, SiteSeeds: seeds, ClockOffset: o.toff, FaultAt: o.faultAt, Kind: o.faultKind, TornNum: 1, TornDen: 2, Ambient: o.ambient, Stall: o.stall,
			// "the same I/O error at the k-th file operation" only means the same thing under the baseline's schedule
			FixedSchedule: o.faultAt >= 0}, e.root)
	}
	o.deviated = r.Deviated
	o.events = r.Events
	o.sched, o.schedTasks, o.gaveUp = r.SchedDeviated, r.SchedTasks, r.SchedGaveUp
	if r.SchedTasks > 0 {
		e.res.Counters["runs_in_which_the_generator_started_goroutines"]++
		e.res.Counters["generator_goroutines_run_as_tasks"] += r.SchedTasks
		e.res.Counters["goroutine_scheduling_decisions"] += r.SchedPicks
		e.res.Counters["goroutine_scheduling_decisions_off_the_default"] += r.SchedDeviated
	}
	if r.SchedGaveUp != "" {
		e.res.Counters["runs_the_goroutine_scheduler_let_go_of"]++
	}
	if r.Stragglers {
		e.res.Counters["runs_with_goroutines_alive_at_return"]++
	}
	if r.LateWrite != "" {
		o.violated, o.class, o.late = true, "writes-after-return", true
		o.detail = "the generator returned (err=" + clipN(r.Err, 80) + ") while goroutines it had started were still writing: " + r.LateWrite + " changed afterwards"
		return o
	}
	snap := gencore.Snapshot(out)
	bErr, rErr := b.err != "" || b.panic != "", r.Err != "" || r.Panic != ""
	switch {
	case bErr && rErr:
		// both fail: the error text is not a generated file, but whatever was written before the failure is
		o.skipped = "both_error"
		if n, c, d := gencore.DiffSnap(b.files, snap); n != "" && o.dirstate == 0 {
			o.skipped = ""
			o.violated, o.class = true, "differs-after-failure"
			o.detail = fmt.Sprintf("%s %s %s (both runs report an error; the files left behind differ)", n, c, d)
		}
	case bErr != rErr:
		o.violated, o.class = true, "outcome"
		o.detail = fmt.Sprintf("sorted-order run: err=%q panic=%q; this run: err=%q panic=%q", b.err, b.panic, r.Err, r.Panic)
	default:
		if o.dirstate != 0 {
			// only the files this invocation calls for are compared; what else lies in the directory is C19's subject
			for n := range snap {
				if _, ok := b.files[n]; !ok {
					delete(snap, n)
				}
			}
		}
		if n, c, d := gencore.DiffSnap(b.files, snap); n != "" {
			o.violated, o.class = true, "differs"
			o.detail = fmt.Sprintf("%s %s %s", n, c, d)
		}
	}
	return o
}

func (e *c12env) keyOf(o c12outcome) string {
	if o.late {
		return lateKey
	}
	if len(o.deviated) > 0 {
		var ks []string
		for _, id := range o.deviated {
			if s, ok := e.sites[id]; ok {
				ks = append(ks, s.Key())
			} else {
				ks = append(ks, fmt.Sprintf("site%d", id))
			}
		}
		return "maporder:" + strings.Join(ks, "+")
	}
	if o.sched > 0 {
		return "schedule:interleaving-of-the-generator's-own-goroutines"
	}
	if o.toff != 0 {
		return "clock"
	}
	if o.ambient != 0 {
		return "ambient:pid-hostname-env-cpus"
	}
	if o.stall {
		return "timer:fires-first-in-a-stalled-process"
	}
	if o.faultAt >= 0 {
		return "failing-run:leftovers-or-outcome-differ-under-the-same-io-error"
	}
	if o.h != 0 {
		return historyNames[o.h]
	}
	if o.dirstate != 0 {
		return "outdir-state:" + []string{"", "user-go-files-present", "stale-output-of-another-invocation"}[o.dirstate]
	}
	return "uncontrolled"
}

func hash64(parts ...string) uint64 {
	h := fnv.New64a()
	for _, p := range parts {
		h.Write([]byte(p))
		h.Write([]byte{0})
	}
	return h.Sum64()
}

func runC12(job *Job, res *Result) {
	e := newC12(job, res)
	if len(job.Corpus) == 0 {
		fatal(fmt.Errorf("empty corpus"))
	}
	deadline := time.Now().Add(time.Duration(job.BudgetS * float64(time.Second)))
	known := map[string]bool{}
	for _, k := range job.KnownKeys {
		known[k] = true
	}
	foundKeys := map[string]bool{}
	for run := job.RunFrom + job.Worker; job.MaxRuns == 0 || run < job.RunFrom+job.MaxRuns; run += job.Workers {
		if job.BudgetS > 0 && time.Now().After(deadline) {
			res.Counters["stopped_by_budget"]++
			break
		}
		inv, other := pickInvocation(job, run)
		t := tape.NewGen(job.Seed, "C12", uint64(run))
		o := e.execC12(inv, other, t)
		res.Runs++
		res.Counters["history_"+historyNames[o.h]]++
		if o.toff != 0 {
			res.Counters["clock_offset_runs"]++
		}
		if o.skipped != "" {
			res.Counters["skipped_"+o.skipped]++
		}
		if len(o.deviated) > 0 {
			res.Counters["runs_with_deviating_order"]++
		}
		nontrivial := len(o.deviated) > 0 || o.sched > 0 || o.h != 0 || o.toff != 0 || o.ambient != 0 || o.dirstate != 0 || o.stall || o.faultAt >= 0
		if nontrivial && o.skipped == "" {
			e.distinct[hash64(inv.Hash(), fmt.Sprint(o.deviated), strings.Join(o.events, "|"), fmt.Sprint(o.h, o.toff, o.ambient, o.dirstate, o.stall, o.faultAt, o.faultKind, o.sched))] = true
		}
		e.logH = hash64(fmt.Sprint(e.logH), fmt.Sprint(run), fmt.Sprint(t.Rec), fmt.Sprint(o.violated, o.class, o.detail), strings.Join(o.events, "|"))
		if len(res.Samples) < 3 && len(o.deviated) > 0 {
			s, _ := json.Marshal(map[string]any{"run": run, "corpus": inv.Corpus, "flags": inv.Flags(), "history": historyNames[o.h],
				"clock_offset": o.toff.String(), "events": o.events, "tape": t.Rec, "result": map[bool]string{true: "VIOLATION", false: "identical to sorted-order run"}[o.violated]})
			res.Samples = append(res.Samples, s)
		}
		if o.inputsOlder {
			res.Counters["runs_with_stale_output_newer_than_the_inputs"]++
		}
		if !o.violated {
			continue
		}
		res.Counters["violating_runs"]++
		quick := e.keyOf(o)
		if foundKeys[quick] {
			res.Counters["duplicate_violations"]++
			continue
		}
		v := e.shrinkC12(run, inv, other, t.Rec, nil)
		if v == nil {
			// The same tape does not reproduce the difference: something the simulator does not control
			// (goroutines, real randomness, ...) decides the output. That is itself non-determinism of the
			// generator; report it as a flaky finding whose replay repeats the run until it differs.
			v = e.flakyC12(run, inv, other, t.Rec, o)
		}
		if foundKeys[v.Key] {
			res.Counters["duplicate_violations"]++
		} else {
			foundKeys[v.Key] = true
			res.Violations = append(res.Violations, *v)
		}
		foundKeys[quick] = true
		// look past a known finding: mask its sites and try the same tape again
		for i := 0; i < 3 && known[v.Key] && len(v.Replay.Masked) < 16; i++ {
			var mask []int
			mask = append(mask, v.Replay.Masked...)
			oo := e.replayOutcome(inv, other, v.Replay.Tape, v.Replay.Masked)
			mask = append(mask, oo.deviated...)
			v2 := e.shrinkC12(run, inv, other, t.Rec, mask)
			if v2 == nil {
				break
			}
			if !foundKeys[v2.Key] {
				foundKeys[v2.Key] = true
				res.Violations = append(res.Violations, *v2)
			}
			v = v2
		}
		if len(foundKeys) > 24 {
			res.Notes = append(res.Notes, "stopped early: many distinct violations")
			break
		}
	}
	e.finish()
}

func (e *c12env) finish() {
	res := e.res
	res.SiteStats = map[string]*SiteAgg{}
	for id, st := range verifhook.Stats {
		k := fmt.Sprintf("site%d", id)
		if s, ok := e.sites[id]; ok {
			k = s.Key()
		}
		res.SiteStats[k] = &SiteAgg{Execs: st.Execs, MaxLen: st.MaxLen, Deviated: st.Deviated, Orders: len(st.Orders), Uncanon: st.Uncanon}
	}
	res.Templates = verifhook.Templates
	for h := range e.distinct {
		res.Distinct = append(res.Distinct, h)
	}
	res.LogHash = fmt.Sprintf("%016x", e.logH)
}

func (e *c12env) replayOutcome(inv gencore.Invocation, other *gencore.Invocation, vals []uint32, masked []int) c12outcome {
	e.masked = masked
	defer func() { e.masked = nil }()
	return e.execC12(inv, other, tape.NewReplay(vals))
}

func (e *c12env) shrinkC12(run int, inv gencore.Invocation, other *gencore.Invocation, rec []uint32, masked []int) *Violation {
	first := e.replayOutcome(inv, other, rec, masked)
	if !first.violated {
		return nil
	}
	budget := time.Duration(e.job.ShrinkS * float64(time.Second))
	if budget == 0 {
		budget = 20 * time.Second
	}
	min := tape.Shrink(rec, func(v []uint32) bool {
		o := e.replayOutcome(inv, other, v, masked)
		return o.violated && o.late == first.late
	}, budget)
	o := e.replayOutcome(inv, other, min, masked)
	if !o.violated {
		return nil
	}
	// site-level minimisation: pin every deviating site that is not needed for the difference to sorted order
	// (a site is also pinned when it is the only one, if the difference survives without it: then map order is not the cause)
	if len(o.deviated) > 0 && !o.late {
		single := len(o.deviated) == 1
		for _, site := range append([]int(nil), o.deviated...) {
			try := append(append([]int(nil), masked...), site)
			if o2 := e.replayOutcome(inv, other, min, try); o2.violated && !o2.late && (len(o2.deviated) > 0 || single || o2.sched > 0) {
				masked, o = try, o2
			}
		}
	}
	key := e.keyOf(o)
	var trace []string
	tr := tape.NewReplay(min)
	tr.Trace = func(l string, n, v int) { trace = append(trace, fmt.Sprintf("choose %s: %d of %d", l, v, n)) }
	e.masked = masked
	o2 := e.execC12(inv, other, tr)
	e.masked = nil
	trace = append(trace, fmt.Sprintf("history=%s clock_offset=%s ambient=%d outdir_state=%d stalled=%v io_error=%s@%d", historyNames[o2.h], o2.toff, o2.ambient, o2.dirstate, o2.stall, o2.faultKind, o2.faultAt))
	trace = append(trace, o2.events...)
	if o2.schedTasks > 0 {
		trace = append(trace, fmt.Sprintf("the generator started %d goroutines; %d scheduling decisions differed from the default order; scheduler gave up: %q", o2.schedTasks, o2.sched, o2.gaveUp))
	}
	rp := Replay{Property: "C12", FindingKey: key, Seed: e.job.Seed, Run: run, Invocation: &inv, Tape: min, Masked: masked, Trace: trace,
		Observed: o.class + ": " + o.detail, Expected: "byte-identical files to the sorted-order fresh run of the same invocation", SiteTable: e.job.Sites}
	rp.Other = other // needed by several legs (history, out-dir state, -dir mode)
	return &Violation{Key: key, Replay: rp}
}

func replayC12(job *Job, res *Result) {
	e := newC12(job, res)
	rp := job.Replay
	o := e.replayOutcome(*rp.Invocation, rp.Other, rp.Tape, rp.Masked)
	res.Runs = 1
	if rp.FindingKey == lateKey {
		for i := 0; i < 200 && !(o.violated && o.late); i++ {
			o = e.replayOutcome(*rp.Invocation, rp.Other, rp.Tape, rp.Masked)
			res.Runs++
		}
		if o.violated && o.late {
			res.ReplayKey = lateKey
			res.Notes = append(res.Notes, o.detail)
		}
		e.finish()
		return
	}
	if rp.FindingKey == flakyKey {
		for i := 0; i < 200 && !o.violated; i++ {
			o = e.replayOutcome(*rp.Invocation, rp.Other, rp.Tape, rp.Masked)
			res.Runs++
		}
		if o.violated {
			res.ReplayKey = flakyKey
			res.Notes = append(res.Notes, fmt.Sprintf("differed from the baseline after %d executions of the same tape: %s: %s", res.Runs, o.class, o.detail))
		}
		e.finish()
		return
	}
	if o.violated {
		res.ReplayKey = e.keyOf(o)
		res.Notes = append(res.Notes, o.class+": "+o.detail)
	} else {
		// not reproduced at once: is the finding a matter of chance under one and the same tape?
		for i := 0; i < 60 && !o.violated; i++ {
			o = e.replayOutcome(*rp.Invocation, rp.Other, rp.Tape, rp.Masked)
			res.Runs++
		}
		if o.violated {
			res.ReplayKey = flakyKey
			res.Notes = append(res.Notes, fmt.Sprintf("differed from the baseline only in execution %d of the same tape (not controlled by the simulator): %s: %s", res.Runs, o.class, o.detail))
		}
	}
	e.finish()
}

// siblingSource is a hand-written Go file of the same package that imports third-party packages under
// names that collide with standard-library packages the generated code refers to.
func siblingSource(pkg string) string {
	return "package " + pkg + `

import (
	fmt "example.com/fake/fmtx"
	json "example.com/fake/jsoniter"
	log "example.com/fake/logrus"
	http "example.com/fake/httpx"
	strings "example.com/fake/stringsx"
)

func zzUserLogging() {
	log.Println(fmt.Sprintf("%v %v", strings.HasPrefix("a", "b"), strings.Index("a", "b")))
	_ = fmt.Errorf
	_ = json.Marshal
	_ = json.Unmarshal
	_ = json.NewDecoder
	_ = json.NewEncoder
	_ = http.MethodGet
	_ = strings.TrimPrefix
}
`
}

const flakyKey = "uncontrolled:differs-under-identical-tape"
const lateKey = "uncontrolled:generator-returns-while-still-writing"

func clipN(s string, n int) string {
	if len(s) > n {
		return s[:n] + "…"
	}
	return s
}

// flakyC12 repeats one tape and reports how often the output differs from the sorted baseline.
func (e *c12env) flakyC12(run int, inv gencore.Invocation, other *gencore.Invocation, rec []uint32, first c12outcome) *Violation {
	diff := 1 // the original run differed
	const reps = 40
	detail := first.detail
	for i := 0; i < reps; i++ {
		if o := e.replayOutcome(inv, other, rec, nil); o.violated {
			diff++
			detail = o.detail
		}
	}
	rp := Replay{Property: "C12", FindingKey: flakyKey, Seed: e.job.Seed, Run: run, Invocation: &inv, Other: other, Tape: rec,
		Trace:    []string{fmt.Sprintf("the same tape was executed %d times: %d executions differed from the sorted-order baseline", reps+1, diff)},
		Observed: "output differs between executions of one tape: " + first.class + ": " + detail,
		Expected: "byte-identical files for identical inputs and identical simulator choices", SiteTable: e.job.Sites}
	return &Violation{Key: flakyKey, Replay: rp}
}
