package main

import (
	"encoding/json"
	"fmt"
	"os"
	"path/filepath"
	"sort"
	"strings"
	"time"

	"github.com/vkd/goag/verifrt/gencore"
	"github.com/vkd/goag/verifrt/simos"
	"github.com/vkd/goag/verifrt/tape"
)

var goagNames = []string{"client.go", "components.go", "handler.go", "router.go", "spec_file.go"}
var userNames = []string{"impl.go", "README.md", "client_test.go", "zz.go", "sub/keep.go", "components_test.go", ".gitignore", ".goag.yaml", "openapi.yaml"}
var tornFracs = [][2]int{{1, 2}, {0, 1}, {99, 100}, {1, 4}}

type fresh struct {
	files map[string]string
	calls int
	err   string
}

type c19env struct {
	job      *Job
	res      *Result
	root     string
	alphabet []gencore.Invocation // first 8 = core
	fresh    []*fresh
	owned    map[string]bool
	distinct map[uint64]bool
	dirN     int
	logH     uint64
	useCLI   bool
}

type c19step struct {
	Op    string `json:"op"` // gen | rerun | user_write | user_edit
	Inv   int    `json:"inv,omitempty"`
	File  int    `json:"file,omitempty"`
	How   int    `json:"how,omitempty"`
	Fault bool   `json:"fault,omitempty"`
	Kind  string `json:"kind,omitempty"`
	At    int    `json:"at,omitempty"`
	Torn  int    `json:"torn,omitempty"`
}

type c19plan struct {
	Mode      int
	SpecInOut bool
	RelPaths  bool // the generator is run from the parent directory with relative paths
	UserCfg   bool // the user keeps a .goag.yaml (and an unrelated openapi.yaml) in the out dir that no invocation is pointed at
	Steps     []c19step
}

func coreAlphabet(job *Job) ([]gencore.Invocation, error) {
	var with, without *CorpusEntry
	for i := range job.Corpus {
		switch job.Corpus[i].Name {
		case "h_with_components":
			with = &job.Corpus[i]
		case "h_without_components":
			without = &job.Corpus[i]
		}
	}
	if with == nil || without == nil {
		return nil, fmt.Errorf("corpus lacks h_with_components / h_without_components")
	}
	var out []gencore.Invocation
	for _, c := range []*CorpusEntry{with, without} {
		for _, client := range []bool{false, true} {
			for _, api := range []bool{false, true} {
				out = append(out, gencore.Invocation{Corpus: c.Name, SpecName: "openapi.yaml", Spec: c.Spec, HasConfig: c.HasConfig, Config: c.Config,
					GenClient: client, APIHandler: api, DoNotEdit: true, Package: "test", SpecHandler: "openapi.yaml"})
			}
		}
	}
	return out, nil
}

func newC19(job *Job, res *Result, alphabet []gencore.Invocation) *c19env {
	e := &c19env{job: job, res: res, root: job.Scratch, distinct: map[uint64]bool{}, owned: map[string]bool{}}
	for _, n := range goagNames {
		e.owned[n] = true
	}
	if alphabet == nil {
		core, err := coreAlphabet(job)
		if err != nil {
			fatal(err)
		}
		alphabet = core
		// extended alphabet: other corpus specs x flag variants (deterministic from the seed)
		t := tape.NewGen(job.Seed, "C19-alphabet", 0)
		var others []CorpusEntry
		for _, c := range job.Corpus {
			if c.Class != "H" {
				others = append(others, c)
			}
		}
		for i := 0; i < 8 && len(others) > 0; i++ {
			c := others[t.Choose(len(others), "spec")]
			alphabet = append(alphabet, gencore.Invocation{Corpus: c.Name, SpecName: "openapi.yaml", Spec: c.Spec, HasConfig: c.HasConfig, Config: c.Config,
				GenClient: t.Choose(2, "c") == 1, APIHandler: t.Choose(4, "a") != 0, DoNotEdit: t.Choose(2, "d") == 1,
				Package: []string{"test", "api"}[t.Choose(2, "p")], SpecHandler: "openapi.yaml", BasePath: []string{"", "/v1"}[t.Choose(2, "b")]})
		}
		// a twin that differs only in the config file: custom imports with an alias that shadows a std package
		if len(alphabet) > 9 {
			twin := alphabet[9]
			twin.HasConfig, twin.Config = true, "imports:\n  - value: github.com/goccy/go-json\n    alias: json\n"
			alphabet[9].HasConfig, alphabet[9].Config = false, ""
			alphabet = append(alphabet, twin)
		}
		// a twin of the first extra invocation that differs only in a flag of the same length
		if len(alphabet) > 8 {
			twin := alphabet[8]
			alphabet[8].BasePath, twin.BasePath = "/v1", "/v2"
			alphabet = append(alphabet, twin)
		}
	}
	e.alphabet = alphabet
	for i, inv := range alphabet {
		in, out := e.freshDirs()
		r := gencore.RunInProcess(inv, in, out, gencore.Sched{Tape: tape.Zero(), FaultAt: -1}, e.root)
		f := &fresh{files: gencore.Snapshot(out), calls: len(r.Calls), err: r.Err + r.Panic}
		if r.Crashed {
			fatal(fmt.Errorf("fresh run crashed without a fault"))
		}
		os.RemoveAll(filepath.Dir(in))
		if f.err != "" && i < 8 {
			res.HarnessErr = fmt.Sprintf("core invocation %d does not generate on this tree: %s", i, f.err)
		}
		for n := range f.files {
			e.owned[n] = true
		}
		e.fresh = append(e.fresh, f)
	}
	return e
}

func (e *c19env) freshDirs() (in, out string) {
	e.dirN++
	d := filepath.Join(e.root, fmt.Sprintf("h%d", e.dirN))
	return filepath.Join(d, "in"), filepath.Join(d, "out")
}

func (e *c19env) invClass(i int) string {
	inv := e.alphabet[i]
	_, comp := e.fresh[i].files["components.go"]
	s := fmt.Sprintf("components=%v,client=%v,api=%v", comp, inv.GenClient, inv.APIHandler)
	return s
}

func (e *c19env) decode(t *tape.Tape) c19plan {
	var p c19plan
	p.Mode = t.Choose(2, "mode")
	usable := func(limit int) []int {
		var u []int
		for i := 0; i < limit && i < len(e.alphabet); i++ {
			if e.fresh[i].err == "" {
				u = append(u, i)
			}
		}
		return u
	}
	drawFault := func(s *c19step) {
		s.Fault = true
		s.Kind = simos.Kinds[t.Choose(len(simos.Kinds), "fault-kind")]
		s.At = t.Choose(e.fresh[s.Inv].calls+3, "fault-at")
		s.Torn = t.Choose(len(tornFracs), "torn")
	}
	if p.Mode == 0 {
		core := usable(8)
		n := 1 + t.Choose(3, "len")
		for i := 0; i < n; i++ {
			p.Steps = append(p.Steps, c19step{Op: "gen", Inv: core[t.Choose(len(core), "inv")]})
		}
		if fs := t.Choose(n, "fault-step"); fs > 0 {
			drawFault(&p.Steps[fs-1])
		}
		return p
	}
	all := usable(len(e.alphabet))
	p.SpecInOut = t.Choose(2, "spec-in-outdir") == 1
	p.UserCfg = !p.SpecInOut && t.Choose(2, "user-config-in-outdir") == 1
	p.RelPaths = t.Choose(2, "relative-paths") == 1
	n := 1 + t.Choose(8, "len")
	for i := 0; i < n; i++ {
		switch k := t.Choose(10, "op"); {
		case k <= 4:
			p.Steps = append(p.Steps, c19step{Op: "gen", Inv: all[t.Choose(len(all), "inv")]})
		case k == 5:
			p.Steps = append(p.Steps, c19step{Op: "rerun"})
		case k == 6:
			p.Steps = append(p.Steps, c19step{Op: "user_write", File: t.Choose(len(userNames), "ufile"), How: t.Choose(3, "content")})
		case k == 7:
			p.Steps = append(p.Steps, c19step{Op: "user_edit", File: t.Choose(len(goagNames), "ofile"), How: t.Choose(5, "how")})
		default:
			s := c19step{Op: "gen", Inv: all[t.Choose(len(all), "inv")]}
			drawFault(&s)
			p.Steps = append(p.Steps, s)
		}
	}
	return p
}

type c19outcome struct {
	violated            bool
	key                 string
	detail              string
	trace               []string
	fired               int
	faultKinds          map[string]int
	probes              map[string]int
	logParts            []string
	successDespiteFault []string
	plannedReached      bool // the planned fault's call index was reached (whether or not the kind applied)
}

func userContent(name string, v int) string {
	switch name {
	case ".goag.yaml":
		// a config file the user keeps next to the generated code but does NOT pass to this invocation
		return "cors:\n  enable: true\nimports:\n  - value: github.com/goccy/go-json\n    alias: json\n"
	case "openapi.yaml":
		return "openapi: 3.0.3\ninfo: {title: not-the-spec-of-this-invocation, version: 9.9.9}\npaths: {}\n"
	}
	return fmt.Sprintf("// user file %s, version %d\npackage test\n", name, v)
}

func (e *c19env) execC19(p c19plan) (o c19outcome) {
	o.faultKinds = map[string]int{}
	o.probes = map[string]int{}
	in, D := e.freshDirs()
	defer os.RemoveAll(filepath.Dir(in))
	simos.ResetClock()
	if p.SpecInOut {
		in = D
	}
	os.MkdirAll(D, 0o755)
	user := map[string]string{}
	writeUser := func(name, content string) {
		fp := filepath.Join(D, filepath.FromSlash(name))
		os.MkdirAll(filepath.Dir(fp), 0o755)
		if err := os.WriteFile(fp, []byte(content), 0o644); err != nil {
			fatal(err)
		}
		simos.Touch(fp)
		user[name] = content
	}
	writeUser("impl.go", userContent("impl.go", 0))
	writeUser("README.md", "# user readme\n")
	writeUser("client_test.go", userContent("client_test.go", 0))
	writeUser("sub/keep.go", userContent("sub/keep.go", 0))
	// a hand-written file of the generated package that imports third-party packages under std names
	writeUser("handler_impl.go", siblingSource("test"))
	if p.UserCfg {
		writeUser(".goag.yaml", userContent(".goag.yaml", 0))
		writeUser("openapi.yaml", userContent("openapi.yaml", 0))
	}
	lastInv := -1
	cleanInv := -1 // D is known to reflect this invocation exactly
	tornPending := false
	trace := func(f string, a ...any) { o.trace = append(o.trace, fmt.Sprintf(f, a...)) }
	viol := func(key, detail string) {
		if !o.violated {
			o.violated, o.key, o.detail = true, key, detail
			trace("VIOLATION %s: %s", key, detail)
		}
	}
	checkUser := func(after string) {
		names := make([]string, 0, len(user))
		for n := range user {
			names = append(names, n)
		}
		sort.Strings(names)
		for _, n := range names {
			b, err := os.ReadFile(filepath.Join(D, filepath.FromSlash(n)))
			if err != nil {
				viol("user:"+n+":deleted:"+after, "user file "+n+" is gone")
				return
			}
			if string(b) != user[n] {
				viol("user:"+n+":modified:"+after, "user file "+n+" was modified")
				return
			}
		}
	}
	doGen := func(i int, st c19step, label string) {
		inv := e.alphabet[i]
		if p.SpecInOut {
			// the user (re)writes spec and config in the output directory: user files
			user[inv.SpecName] = inv.Spec
			delete(user, ".goag.yaml")
			if inv.HasConfig {
				user[".goag.yaml"] = inv.Config
			}
		}
		s := gencore.Sched{Tape: tape.Zero(), FaultAt: -1, RelPaths: p.RelPaths}
		if st.Fault {
			s.FaultAt, s.Kind = st.At, st.Kind
			s.TornNum, s.TornDen = tornFracs[st.Torn][0], tornFracs[st.Torn][1]
		}
		var r gencore.Result
		if e.useCLI {
			r = gencore.RunCLI(e.job.CLI, inv, in, D, s, nil, nil, filepath.Join(e.root, fmt.Sprintf("plan%d.json", e.dirN)))
		} else {
			r = gencore.RunInProcess(inv, in, D, s, e.root)
		}
		if st.Fault && r.Reached {
			o.plannedReached = true
		}
		before := cleanInv
		lastInv = i
		cleanInv = -1
		desc := fmt.Sprintf("%s gen[%d] %s %s", label, i, inv.Corpus, e.invClass(i))
		if r.Fired {
			o.fired++
			o.faultKinds[st.Kind]++
			var at string
			for _, c := range r.Calls {
				if c.Idx == st.At {
					at = c.Op + " " + c.Path
				}
			}
			trace("%s FAULT %s at call %d (%s) -> err=%q crashed=%v", desc, st.Kind, st.At, at, clipS(r.Err), r.Crashed)
			o.logParts = append(o.logParts, desc, st.Kind, fmt.Sprint(st.At), at, fmt.Sprint(r.Crashed))
			if r.Err == "" && !r.Crashed && r.Panic == "" {
				o.probes["faulted_steps_reporting_success"]++
				o.successDespiteFault = append(o.successDespiteFault, st.Kind+" at "+at)
			}
			if strings.HasPrefix(at, "write") && r.Crashed {
				o.probes["crash_landed_inside_write"]++
				tornPending = true
			}
			if r.Crashed {
				o.probes["crashed_steps"]++
			} else {
				o.probes["io_error_steps"]++
			}
			checkUser("after-faulted-gen:" + st.Kind)
			if r.Err != "" || r.Crashed || r.Panic != "" {
				return // a step that crashed or reported the failure is never judged
			}
			// the generator claims success although an I/O fault was handed to it: then the directory must be right
			trace("%s reported success despite the fault: judged like any successful run", label)
		}
		trace("%s -> err=%q", desc, clipS(r.Err+r.Panic))
		o.logParts = append(o.logParts, desc, r.Err, r.Panic)
		if r.Err != "" || r.Panic != "" || r.Crashed {
			viol("hist:gen-failed:"+e.invClass(i), "fault-free run failed: "+r.Err+r.Panic)
			return
		}
		checkUser("after-gen")
		snap := gencore.Snapshot(D)
		want := e.fresh[i].files
		names := map[string]bool{}
		for n := range e.owned {
			names[n] = true
		}
		ns := make([]string, 0, len(names))
		for n := range names {
			ns = append(ns, n)
		}
		sort.Strings(ns)
		for _, n := range ns {
			if _, isUser := user[n]; isUser {
				continue
			}
			w, wok := want[n]
			g, gok := snap[n]
			switch {
			case wok && !gok:
				viol("hist:"+n+":missing:"+e.invClass(i), n+" should exist after this invocation")
			case !wok && gok:
				viol("hist:"+n+":stale:"+e.invClass(i), n+" is left over from an earlier run")
			case w != g:
				viol("hist:"+n+":differs:"+e.invClass(i), n+" differs from a fresh single run: "+firstDiffLine(w, g))
			}
			if o.violated {
				return
			}
		}
		// everything in D that the user did not put there was created by goag: a leftover the last
		// invocation does not call for (e.g. a temp file of an interrupted earlier run) is a stale goag file
		extra := make([]string, 0)
		for n := range snap {
			if _, u := user[n]; !u && !e.owned[n] {
				extra = append(extra, n)
			}
		}
		sort.Strings(extra)
		if len(extra) > 0 {
			viol("hist:"+extra[0]+":stale:"+e.invClass(i), extra[0]+" was created by an earlier generator run and is not part of a fresh run of this invocation")
			return
		}
		if tornPending {
			o.probes["torn_file_later_overwritten"]++
			tornPending = false
		}
		if before >= 0 && before != i {
			for n := range e.fresh[before].files {
				if _, ok := want[n]; !ok {
					o.probes["stale_file_removed"]++
					break
				}
			}
		}
		cleanInv = i
	}
	for si, st := range p.Steps {
		if o.violated {
			break
		}
		label := fmt.Sprintf("step %d:", si+1)
		switch st.Op {
		case "gen":
			doGen(st.Inv, st, label)
		case "rerun":
			if lastInv < 0 {
				trace("%s rerun (nothing to rerun)", label)
				continue
			}
			var before map[string]string
			wasClean := cleanInv == lastInv
			if wasClean {
				before = gencore.Snapshot(D)
			}
			doGen(lastInv, c19step{}, label+" rerun")
			if wasClean && !o.violated {
				if n, c, _ := gencore.DiffSnap(before, gencore.Snapshot(D)); n != "" {
					viol("hist:"+n+":rerun-"+c+":"+e.invClass(lastInv), "re-running the same invocation changed "+n)
				}
				o.probes["idempotence_checked"]++
			}
		case "user_write":
			n := userNames[st.File]
			if p.SpecInOut && (n == ".goag.yaml" || n == "openapi.yaml") {
				n = "impl.go"
			}
			writeUser(n, userContent(n, st.How+1))
			trace("%s user writes %s (v%d)", label, n, st.How+1)
			o.logParts = append(o.logParts, "uw", n)
		case "user_edit":
			n := goagNames[st.File]
			fp := filepath.Join(D, n)
			b, err := os.ReadFile(fp)
			if err != nil {
				trace("%s user edit of %s skipped (absent)", label, n)
				continue
			}
			switch st.How {
			case 0:
				os.WriteFile(fp, append(b, []byte("\n// garbage appended by user\nfunc {{{\n")...), 0o644)
			case 1:
				os.WriteFile(fp, b[:len(b)/2], 0o644)
			case 2:
				os.Remove(fp)
			case 3:
				os.WriteFile(fp, []byte(strings.Repeat("x", len(b)+4096)), 0o644)
			case 4:
				// same-length damage: size-based "up to date" tests cannot see it
				c := append([]byte(nil), b...)
				for i := len(c) / 3; i < len(c)/3+40 && i < len(c); i++ {
					if c[i] != '\n' {
						c[i] = 'X'
					}
				}
				os.WriteFile(fp, c, 0o644)
			}
			simos.Touch(fp)
			cleanInv = -1
			trace("%s user damages %s (how=%d)", label, n, st.How)
			o.logParts = append(o.logParts, "ue", n, fmt.Sprint(st.How))
			o.probes["owned_file_damaged_by_user"]++
		}
	}
	if !o.violated {
		checkUser("at-end")
	}
	return
}

func clipS(s string) string {
	if len(s) > 160 {
		return s[:160] + "…"
	}
	return s
}

func firstDiffLine(a, b string) string {
	_, _, d := gencore.DiffSnap(map[string]string{"f": a}, map[string]string{"f": b})
	return d
}

func (e *c19env) account(p c19plan, o c19outcome, vals []uint32) {
	res := e.res
	res.Runs++
	res.Counters[fmt.Sprintf("mode%d_runs", p.Mode)]++
	res.Counters["steps"] += len(p.Steps)
	res.Counters["faults_fired"] += o.fired
	for k, v := range o.faultKinds {
		res.Counters["fault_"+k] += v
	}
	for k, v := range o.probes {
		res.Counters["probe_"+k] += v
	}
	planned := false
	for _, s := range p.Steps {
		if s.Fault {
			planned = true
		}
	}
	if planned && o.fired == 0 {
		res.Counters["planned_fault_not_reached"]++
	}
	pb, _ := json.Marshal(p)
	nontrivial := len(p.Steps) >= 2 || o.fired > 0
	if nontrivial && (!planned || o.fired > 0) {
		e.distinct[hash64(string(pb))] = true
	}
	for _, sd := range o.successDespiteFault {
		if len(res.Notes) < 12 {
			res.Notes = append(res.Notes, "success reported despite fault: "+sd)
		}
	}
	e.logH = hash64(fmt.Sprint(e.logH), fmt.Sprint(vals), strings.Join(o.logParts, "|"), o.key)
	if len(res.Samples) < 4 && (o.fired > 0 || (len(p.Steps) >= 3 && len(res.Samples) < 2)) {
		s, _ := json.Marshal(map[string]any{"tape": vals, "plan": p, "trace": o.trace})
		res.Samples = append(res.Samples, s)
	}
}

func (e *c19env) handleViolation(run int, vals []uint32, known map[string]bool, found map[string]bool) {
	res := e.res
	res.Counters["violating_runs"]++
	budget := time.Duration(e.job.ShrinkS * float64(time.Second))
	if budget == 0 {
		budget = 20 * time.Second
	}
	o0 := e.execC19(e.decode(tape.NewReplay(vals)))
	if !o0.violated {
		res.HarnessErr = fmt.Sprintf("C19 run %d violated but did not reproduce from its tape", run)
		return
	}
	if found[o0.key] {
		res.Counters["duplicate_violations"]++
		return
	}
	key := o0.key
	min := tape.Shrink(vals, func(v []uint32) bool {
		o := e.execC19(e.decode(tape.NewReplay(v)))
		return o.violated && o.key == key
	}, budget)
	o := e.execC19(e.decode(tape.NewReplay(min)))
	if !o.violated {
		res.HarnessErr = "C19 shrink lost the violation"
		return
	}
	found[o.key] = true
	rp := Replay{Property: "C19", FindingKey: o.key, Seed: e.job.Seed, Run: run, Alphabet: e.alphabet, Tape: min, Trace: o.trace,
		Observed: o.detail, Expected: "goag-owned files == single fresh run of the last invocation; user files untouched; rerun changes nothing"}
	res.Violations = append(res.Violations, Violation{Key: o.key, Replay: rp})
}

func runC19(job *Job, res *Result) {
	e := newC19(job, res, nil)
	if res.HarnessErr != "" {
		return
	}
	known := map[string]bool{}
	found := map[string]bool{}
	deadline := time.Now().Add(time.Duration(job.BudgetS * float64(time.Second)))
	over := func() bool { return job.BudgetS > 0 && time.Now().After(deadline) }
	if job.Mode == "c19enum" {
		e.enumerate(over, known, found)
	} else {
		for run := job.RunFrom + job.Worker; job.MaxRuns == 0 || run < job.RunFrom+job.MaxRuns; run += job.Workers {
			if over() {
				res.Counters["stopped_by_budget"]++
				break
			}
			t := tape.NewGen(job.Seed, "C19", uint64(run))
			e.useCLI = job.CLI != "" && job.CLIFrac > 0 && int(hash64(fmt.Sprint(job.Seed, run))%1000) < job.CLIFrac
			p := e.decode(t)
			o := e.execC19(p)
			if e.useCLI {
				res.Counters["cli_process_runs"]++
			}
			e.account(p, o, t.Rec)
			if o.violated {
				e.handleViolation(run, t.Rec, known, found)
				if res.HarnessErr != "" || len(found) > 16 {
					break
				}
			}
			e.useCLI = false
		}
	}
	for h := range e.distinct {
		res.Distinct = append(res.Distinct, h)
	}
	res.LogHash = fmt.Sprintf("%016x", e.logH)
}

// enumerate visits the finite core space: every history of length <= 3 over the 8
// core invocations x {no fault, (non-final step, fault kind, call index, torn variant)}.
func (e *c19env) enumerate(over func() bool, known, found map[string]bool) {
	job, res := e.job, e.res
	idx := 0
	cases := 0
	complete := true
	runTape := func(vals []uint32) c19outcome {
		p := e.decode(tape.NewReplay(vals))
		o := e.execC19(p)
		e.account(p, o, vals)
		cases++
		if o.violated {
			e.handleViolation(idx, vals, known, found)
		}
		return o
	}
outer:
	for n := 1; n <= 3; n++ {
		total := 1
		for i := 0; i < n; i++ {
			total *= 8
		}
		for h := 0; h < total; h++ {
			idx++
			if idx%job.Workers != job.Worker {
				continue
			}
			invs := make([]uint32, n)
			x := h
			for i := n - 1; i >= 0; i-- {
				invs[i] = uint32(x % 8)
				x /= 8
			}
			head := append([]uint32{0, uint32(n - 1)}, invs...)
			runTape(append(append([]uint32(nil), head...), 0))
			res.Counters["enum_histories"]++
			for fs := 1; fs < n; fs++ {
				inv := int(invs[fs-1])
				for ki, kind := range simos.Kinds {
					torns := 1
					if kind == simos.KTorn || kind == simos.KShort {
						torns = len(tornFracs)
					}
					for at := 0; at < e.fresh[inv].calls+3; at++ {
						reached := false
						for tv := 0; tv < torns; tv++ {
							if over() || (job.EnumLimit > 0 && cases >= job.EnumLimit) || res.HarnessErr != "" || len(found) > 16 {
								complete = false
								break outer
							}
							vals := append(append([]uint32(nil), head...), uint32(fs), uint32(ki), uint32(at), uint32(tv))
							o := runTape(vals)
							if o.fired > 0 {
								reached = true
							} else {
								res.Counters["enum_fault_not_applicable_or_unreached"]++
								if o.plannedReached {
									reached = true // kind not applicable to this call: torn variants make no difference
								}
								break
							}
						}
						if !reached {
							break // call index beyond the end of this step
						}
					}
				}
			}
		}
	}
	res.Exhaustive = complete && job.EnumLimit == 0
	res.Counters["enum_cases"] = cases
}

func replayC19(job *Job, res *Result) {
	e := newC19(job, res, job.Replay.Alphabet)
	o := e.execC19(e.decode(tape.NewReplay(job.Replay.Tape)))
	res.Runs = 1
	if o.violated {
		res.ReplayKey = o.key
		res.Notes = append(res.Notes, o.detail)
		res.Notes = append(res.Notes, o.trace...)
	}
}
