// Command gensim is the simulation worker for the generator (C12, C19). It is
// linked against the rewritten copy of /repo's current working tree.
package main

import (
	"encoding/json"
	"fmt"
	"os"
	"time"

	"github.com/vkd/goag/verifrt/gencore"
)

type CorpusEntry struct {
	Name      string `json:"name"`
	Class     string `json:"class"` // F G K M H
	Spec      string `json:"spec"`  // spec text
	SpecName  string `json:"spec_name"`
	HasConfig bool   `json:"has_config"`
	Config    string `json:"config"`
}

type SiteInfo struct {
	ID         int    `json:"id"`
	File       string `json:"file"`
	Func       string `json:"func"`
	K          int    `json:"k"`
	Kind       string `json:"kind"`
	Controlled bool   `json:"controlled"`
}

func (s SiteInfo) Key() string { return fmt.Sprintf("%s:%s:#%d", s.File, s.Func, s.K) }

type Job struct {
	Mode      string        `json:"mode"` // c12 | c19 | c19enum | replay | dethash
	Seed      uint64        `json:"seed"`
	Worker    int           `json:"worker"`
	Workers   int           `json:"workers"`
	Corpus    []CorpusEntry `json:"corpus"`
	Sites     []SiteInfo    `json:"sites"`
	CLI       string        `json:"cli"`
	Scratch   string        `json:"scratch"`
	BudgetS   float64       `json:"budget_s"`
	MaxRuns   int           `json:"max_runs"`
	KnownKeys []string      `json:"known_keys"`
	CLIFrac   int           `json:"cli_per_1000"`
	Out       string        `json:"out"`
	Replay    *Replay       `json:"replay,omitempty"`
	ShrinkS   float64       `json:"shrink_s"`
	RunFrom   int           `json:"run_from"`
	EnumLimit int           `json:"enum_limit"` // c19enum: stop after this many cases (0 = all)
}

type Replay struct {
	Property   string               `json:"property"`
	FindingKey string               `json:"finding_key"`
	Seed       uint64               `json:"seed"`
	Run        int                  `json:"run"`
	Invocation *gencore.Invocation  `json:"invocation,omitempty"`       // C12
	Alphabet   []gencore.Invocation `json:"alphabet,omitempty"`         // C19
	Other      *gencore.Invocation  `json:"other_invocation,omitempty"` // C12 history h=2
	Tape       []uint32             `json:"tape"`
	Masked     []int                `json:"masked,omitempty"`
	SiteTable  []SiteInfo           `json:"site_table,omitempty"`
	Trace      []string             `json:"trace"`
	Observed   string               `json:"observed"`
	Expected   string               `json:"expected"`
	RepoTree   string               `json:"repo_tree_hash,omitempty"`
}

type Violation struct {
	Key    string `json:"key"`
	Replay Replay `json:"replay"`
}

type Result struct {
	Mode       string              `json:"mode"`
	Worker     int                 `json:"worker"`
	Runs       int                 `json:"runs"`
	WallS      float64             `json:"wall_s"`
	Violations []Violation         `json:"violations"`
	Counters   map[string]int      `json:"counters"`
	SiteStats  map[string]*SiteAgg `json:"site_stats,omitempty"`
	Distinct   []uint64            `json:"distinct"` // hashes of distinct non-trivial cases
	Samples    []json.RawMessage   `json:"samples"`
	Templates  map[string]int      `json:"templates,omitempty"`
	LogHash    string              `json:"log_hash"` // hash over all per-run event logs (determinism)
	Notes      []string            `json:"notes,omitempty"`
	HarnessErr string              `json:"harness_error,omitempty"`
	Exhaustive bool                `json:"exhaustive,omitempty"`
	ReplayKey  string              `json:"replay_key,omitempty"`
}

type SiteAgg struct {
	Execs, MaxLen, Deviated, Orders int
	Uncanon                         bool
}

func fatal(err error) {
	fmt.Fprintln(os.Stderr, "gensim: harness error:", err)
	os.Exit(2)
}

func main() {
	if len(os.Args) != 2 {
		fatal(fmt.Errorf("usage: gensim job.json"))
	}
	b, err := os.ReadFile(os.Args[1])
	if err != nil {
		fatal(err)
	}
	var job Job
	if err := json.Unmarshal(b, &job); err != nil {
		fatal(err)
	}
	if err := os.MkdirAll(job.Scratch, 0o755); err != nil {
		fatal(err)
	}
	start := time.Now()
	res := &Result{Mode: job.Mode, Worker: job.Worker, Counters: map[string]int{}}
	switch job.Mode {
	case "c12", "c12det":
		runC12(&job, res)
	case "c19", "c19enum", "c19det":
		runC19(&job, res)
	case "replay":
		runReplay(&job, res)
	default:
		fatal(fmt.Errorf("unknown mode %q", job.Mode))
	}
	res.WallS = time.Since(start).Seconds()
	ob, _ := json.Marshal(res)
	if err := os.WriteFile(job.Out, ob, 0o644); err != nil {
		fatal(err)
	}
	os.RemoveAll(job.Scratch)
}

func runReplay(job *Job, res *Result) {
	if job.Replay == nil {
		fatal(fmt.Errorf("no replay"))
	}
	switch job.Replay.Property {
	case "C12":
		replayC12(job, res)
	case "C19":
		replayC19(job, res)
	default:
		fatal(fmt.Errorf("replay: property %q", job.Replay.Property))
	}
}
