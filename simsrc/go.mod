module github.com/vkd/goag/verifrt

go 1.23

require github.com/vkd/goag v0.0.0

replace github.com/vkd/goag => /repo
