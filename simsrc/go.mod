module github.com/vkd/goag/verifrt

go 1.23

require github.com/vkd/goag v0.0.0

require (
	github.com/getkin/kin-openapi v0.38.0 // indirect
	github.com/ghodss/yaml v1.0.0 // indirect
	github.com/go-openapi/jsonpointer v0.19.5 // indirect
	github.com/go-openapi/swag v0.19.5 // indirect
	github.com/mailru/easyjson v0.0.0-20190626092158-b2ccc519800e // indirect
	golang.org/x/exp v0.0.0-20240707233637-46b078467d37 // indirect
	golang.org/x/mod v0.19.0 // indirect
	golang.org/x/sync v0.7.0 // indirect
	golang.org/x/text v0.16.0 // indirect
	golang.org/x/tools v0.23.0 // indirect
	gopkg.in/yaml.v2 v2.4.0 // indirect
	gopkg.in/yaml.v3 v3.0.0-20200313102051-9f266ea9e77c // indirect
)

replace github.com/vkd/goag => /repo
