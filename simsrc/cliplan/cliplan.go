// Package cliplan is blank-imported by the rewritten cmd/goag. Its init reads the
// run plan (tape, active map-order sites, clock offset, disk fault) from the file
// named by VERIF_GENSIM_PLAN, so that the real main() runs under the simulator in
// a separate process.
package cliplan

import (
	"encoding/json"
	"fmt"
	"os"
	"time"

	"github.com/vkd/goag/verifrt/simos"
	"github.com/vkd/goag/verifrt/tape"
	"github.com/vkd/goag/verifrt/verifhook"
)

type Plan struct {
	Tape          []uint32 `json:"tape"`
	Active        []int    `json:"active"` // nil = all sites may deviate
	AllActive     bool     `json:"all_active"`
	Masked        []int    `json:"masked"`
	ClockOffsetNs int64    `json:"clock_offset_ns"`
	FaultAt       int      `json:"fault_at"`
	Kind          string   `json:"kind"`
	TornNum       int      `json:"torn_num"`
	TornDen       int      `json:"torn_den"`
	Log           string   `json:"log"`
	Ambient       int      `json:"ambient"`
	Stall         bool     `json:"stall"`
	SiteSeeds     map[int]uint32 `json:"site_seeds"`
}

func init() {
	fn := os.Getenv("VERIF_GENSIM_PLAN")
	if fn == "" {
		return
	}
	bs, err := os.ReadFile(fn)
	if err != nil {
		fmt.Fprintln(os.Stderr, "cliplan:", err)
		os.Exit(2)
	}
	var p Plan
	if err := json.Unmarshal(bs, &p); err != nil {
		fmt.Fprintln(os.Stderr, "cliplan:", err)
		os.Exit(2)
	}
	var active map[int]bool
	if !p.AllActive {
		active = map[int]bool{}
		for _, s := range p.Active {
			active[s] = true
		}
	}
	verifhook.Masked = map[int]bool{}
	for _, s := range p.Masked {
		verifhook.Masked[s] = true
	}
	verifhook.ResetRun(tape.NewReplay(p.Tape), active)
	verifhook.Clock = verifhook.Clock.Add(time.Duration(p.ClockOffsetNs))
	simos.CLIMode = true
	simos.Ambient = p.Ambient
	verifhook.Ambient = p.Ambient
	verifhook.Stall = p.Stall
	verifhook.SiteSeeds = p.SiteSeeds
	simos.Reset(p.FaultAt, p.Kind, p.TornNum, p.TornDen)
	if p.Log != "" {
		lf, err := os.OpenFile(p.Log, os.O_CREATE|os.O_WRONLY|os.O_APPEND, 0o644)
		if err == nil {
			simos.OnCall = func(c simos.Call) {
				b, _ := json.Marshal(c)
				lf.Write(append(b, '\n'))
			}
			verifhook.EventLog = func(s string) { fmt.Fprintf(lf, "{\"ev\":%q}\n", s) }
		}
	}
}
