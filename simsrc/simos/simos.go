// Package simos stands in for package os inside the rewritten generator. Every
// call passes through to the real kernel file system (under the scratch root) but
// first consults the fault plan of the current step: crash before/after the call,
// torn write followed by a crash, or an error handed back to the caller.
// A crash puts the shim in dead mode: the current and every later operation is a
// failing no-op, so deferred clean-ups cannot touch the disk (as after kill -9);
// in-process the driver recovers the Crash panic, in the CLI the process exits 137.
package simos

import (
	"errors"
	"fmt"
	"io/fs"
	"os"
	"sync"
	"syscall"
	"time"
)

type (
	FileMode    = os.FileMode
	FileInfo    = os.FileInfo
	DirEntry    = os.DirEntry
	PathError   = os.PathError
	LinkError   = os.LinkError
	SyscallErr  = os.SyscallError
	Signal      = os.Signal
	Process     = os.Process
	ProcAttr    = os.ProcAttr
)

const (
	O_RDONLY = os.O_RDONLY
	O_WRONLY = os.O_WRONLY
	O_RDWR   = os.O_RDWR
	O_APPEND = os.O_APPEND
	O_CREATE = os.O_CREATE
	O_EXCL   = os.O_EXCL
	O_SYNC   = os.O_SYNC
	O_TRUNC  = os.O_TRUNC

	ModePerm    = os.ModePerm
	ModeDir     = os.ModeDir
	ModeAppend  = os.ModeAppend
	ModeSymlink = os.ModeSymlink
	ModeType    = os.ModeType

	PathSeparator     = os.PathSeparator
	PathListSeparator = os.PathListSeparator
	DevNull           = os.DevNull
)

var (
	ErrInvalid          = os.ErrInvalid
	ErrPermission       = os.ErrPermission
	ErrExist            = os.ErrExist
	ErrNotExist         = os.ErrNotExist
	ErrClosed           = os.ErrClosed
	ErrNoDeadline       = os.ErrNoDeadline
	ErrDeadlineExceeded = os.ErrDeadlineExceeded
	ErrProcessDone      = os.ErrProcessDone

	Args   = os.Args
	Stdin  = os.Stdin
	Stdout = os.Stdout
	Stderr = os.Stderr

	Interrupt = os.Interrupt
	Kill      = os.Kill
)

// ---- fault plan ---------------------------------------------------------------------------

// Fault kinds.
const (
	KNone        = ""
	KCrashBefore = "crash_before"
	KCrashAfter  = "crash_after"
	KError       = "error"       // errno by operation, operation not performed
	KTorn        = "torn_crash"  // Write only: a prefix reaches the file, then crash
	KShort       = "short_write" // Write only: a prefix reaches the file, (n<len, ENOSPC) returned
)

var Kinds = []string{KCrashBefore, KCrashAfter, KError, KTorn, KShort}

type Call struct {
	Idx    int    `json:"i"`
	Op     string `json:"op"`
	Path   string `json:"path"`
	Result string `json:"res"`
}

// Crash is the panic value of an injected crash.
type Crash struct{ At Call }

var (
	mu      sync.Mutex
	FaultAt = -1
	Kind    = KNone
	TornNum = 1 // prefix = len*TornNum/TornDen
	TornDen = 2
	Calls   int
	Log     []Call
	Dead    bool
	Fired   bool   // the planned fault was applied
	NotAppl bool   // the planned fault kind does not apply to the call at FaultAt
	CLIMode bool   // crash = os.Exit(137)
	open    = map[*File]bool{}
	Ambient int                 // see verifhook.Ambient (set by the drivers)
	PathMap func(string) string // display mapping for logs (strips scratch root)
	OnCall  func(Call)
)

// ---- simulated file times -------------------------------------------------------------------------------
// File modification times are part of what a generator could look at ("skip if up to date"). They come from
// a simulated clock that advances one second per touching event, so runs stay a pure function of the tape.

var simClock = time.Date(2026, 1, 2, 3, 0, 0, 0, time.UTC)

// ResetClock restarts the simulated file clock (start of a run).
func ResetClock() { simClock = time.Date(2026, 1, 2, 3, 0, 0, 0, time.UTC) }

// Touch stamps path with the next simulated time (used by the shim after writes and by the harness for user files).
func Touch(path string) {
	simClock = simClock.Add(time.Second)
	os.Chtimes(path, simClock, simClock)
}

var errDead = errors.New("simos: process is dead (injected crash)")

// Reset prepares the shim for a new step.
func Reset(faultAt int, kind string, tornNum, tornDen int) {
	mu.Lock()
	defer mu.Unlock()
	FaultAt, Kind, TornNum, TornDen = faultAt, kind, tornNum, tornDen
	if TornDen <= 0 {
		TornNum, TornDen = 1, 2
	}
	Calls = 0
	Log = nil
	Dead, Fired, NotAppl = false, false, false
	for f := range open {
		f.f.Close()
	}
	open = map[*File]bool{}
}

func disp(p string) string {
	if PathMap != nil {
		return PathMap(p)
	}
	return p
}

type action int

const (
	aNormal action = iota
	aDead
	aError
	aCrashAfter
	aTorn
	aShort
)

func record(c Call) {
	Log = append(Log, c)
	if OnCall != nil {
		OnCall(c)
	}
}

func die(c Call) {
	Dead = true
	for f := range open {
		f.f.Close()
	}
	open = map[*File]bool{}
	c.Result = "CRASH"
	record(c)
	if CLIMode {
		os.Exit(137)
	}
	mu.Unlock()
	panic(Crash{At: c})
}

// fired notes that the planned fault is being applied (and tells the CLI log, which has no other way to know).
func fired() {
	Fired = true
	if OnCall != nil {
		OnCall(Call{Idx: -1, Op: "FAULT-FIRED"})
	}
}

// enter is called with mu held; it may not return (crash).
func enter(op, path string, isWrite bool) (action, Call) {
	c := Call{Idx: Calls, Op: op, Path: disp(path)}
	Calls++
	if Dead {
		c.Result = "dead"
		record(c)
		return aDead, c
	}
	if c.Idx != FaultAt || Kind == KNone {
		return aNormal, c
	}
	switch Kind {
	case KCrashBefore:
		fired()
		die(c)
	case KCrashAfter:
		fired()
		return aCrashAfter, c
	case KError:
		fired()
		return aError, c
	case KTorn:
		if isWrite {
			fired()
			return aTorn, c
		}
		NotAppl = true
	case KShort:
		if isWrite {
			fired()
			return aShort, c
		}
		NotAppl = true
	}
	return aNormal, c
}

func done(a action, c Call, err error) {
	if err != nil {
		c.Result = "err:" + classify(err)
	} else {
		c.Result = "ok"
	}
	if a == aCrashAfter {
		die(c)
	}
	record(c)
}

func classify(err error) string {
	switch {
	case errors.Is(err, fs.ErrNotExist):
		return "ENOENT"
	case errors.Is(err, fs.ErrExist):
		return "EEXIST"
	case errors.Is(err, fs.ErrPermission):
		return "EACCES"
	case errors.Is(err, syscall.EIO):
		return "EIO"
	case errors.Is(err, syscall.ENOSPC):
		return "ENOSPC"
	case errors.Is(err, syscall.EBUSY):
		return "EBUSY"
	case errors.Is(err, errDead):
		return "dead"
	}
	return "other"
}

func injected(op, path string) error {
	var errno syscall.Errno = syscall.EIO
	switch op {
	case "open", "openfile", "create", "readfile", "readdir", "writefile", "stat", "lstat", "chmod":
		errno = syscall.EACCES
	case "remove", "removeall", "rename":
		errno = syscall.EBUSY
	case "mkdir", "mkdirall":
		errno = syscall.ENOSPC
	}
	return &os.PathError{Op: op, Path: path, Err: errno}
}

// generic wrapper for operations without payload
func simple(op, path string, fn func() error) error {
	mu.Lock()
	a, c := enter(op, path, false)
	switch a {
	case aDead:
		mu.Unlock()
		return &os.PathError{Op: op, Path: path, Err: errDead}
	case aError:
		err := injected(op, path)
		done(a, c, err)
		mu.Unlock()
		return err
	}
	err := fn()
	done(a, c, err)
	mu.Unlock()
	return err
}

// ---- files --------------------------------------------------------------------------------

type File struct {
	f       *os.File
	name    string
	written bool
}

func OpenFile(name string, flag int, perm FileMode) (*File, error) {
	var rf *os.File
	err := simple("openfile", name, func() (e error) { rf, e = os.OpenFile(name, flag, perm); return })
	if err != nil {
		if rf != nil {
			rf.Close()
		}
		return nil, err
	}
	f := &File{f: rf, name: name, written: flag&(O_CREATE|O_TRUNC|O_WRONLY|O_RDWR|O_APPEND) != 0}
	if f.written {
		Touch(name)
	}
	mu.Lock()
	open[f] = true
	mu.Unlock()
	return f, nil
}

func Open(name string) (*File, error) { return OpenFile(name, O_RDONLY, 0) }
func Create(name string) (*File, error) {
	return OpenFile(name, O_RDWR|O_CREATE|O_TRUNC, 0666)
}

func (f *File) Name() string { return f.name }
func (f *File) Fd() uintptr  { return f.f.Fd() }

func (f *File) write(op string, b []byte, w func([]byte) (int, error)) (int, error) {
	mu.Lock()
	a, c := enter(op, f.name, true)
	switch a {
	case aDead:
		mu.Unlock()
		return 0, &os.PathError{Op: op, Path: f.name, Err: errDead}
	case aError:
		err := injected(op, f.name)
		done(a, c, err)
		mu.Unlock()
		return 0, err
	case aTorn, aShort:
		n := len(b) * TornNum / TornDen
		if n >= len(b) && len(b) > 0 {
			n = len(b) - 1
		}
		w(b[:n])
		if a == aTorn {
			c.Op = fmt.Sprintf("%s[%d/%d]", op, n, len(b))
			die(c)
		}
		err := &os.PathError{Op: op, Path: f.name, Err: syscall.ENOSPC}
		c.Op = fmt.Sprintf("%s[%d/%d]", op, n, len(b))
		done(a, c, err)
		mu.Unlock()
		return n, err
	}
	n, err := w(b)
	Touch(f.name)
	done(a, c, err)
	mu.Unlock()
	return n, err
}

func (f *File) Write(b []byte) (int, error) { return f.write("write", b, f.f.Write) }
func (f *File) WriteString(s string) (int, error) {
	return f.write("write", []byte(s), f.f.Write)
}
func (f *File) WriteAt(b []byte, off int64) (int, error) {
	return f.write("writeat", b, func(p []byte) (int, error) { return f.f.WriteAt(p, off) })
}
func (f *File) Read(b []byte) (n int, err error) {
	err = simple("read", f.name, func() (e error) { n, e = f.f.Read(b); return })
	return
}
func (f *File) ReadAt(b []byte, off int64) (n int, err error) {
	err = simple("readat", f.name, func() (e error) { n, e = f.f.ReadAt(b, off); return })
	return
}
func (f *File) Seek(offset int64, whence int) (n int64, err error) {
	err = simple("seek", f.name, func() (e error) { n, e = f.f.Seek(offset, whence); return })
	return
}
func (f *File) Close() error {
	err := simple("close", f.name, func() error { return f.f.Close() })
	mu.Lock()
	delete(open, f)
	mu.Unlock()
	if err != nil && !errors.Is(err, errDead) {
		f.f.Close() // an injected close error still releases the descriptor
	}
	return err
}
func (f *File) Sync() error               { return simple("sync", f.name, f.f.Sync) }
func (f *File) Truncate(size int64) error { return simple("truncate", f.name, func() error { return f.f.Truncate(size) }) }
func (f *File) Chmod(m FileMode) error    { return simple("chmod", f.name, func() error { return f.f.Chmod(m) }) }
func (f *File) Stat() (fi FileInfo, err error) {
	err = simple("stat", f.name, func() (e error) { fi, e = f.f.Stat(); return })
	return
}
func (f *File) ReadDir(n int) (des []DirEntry, err error) {
	err = simple("readdir", f.name, func() (e error) { des, e = f.f.ReadDir(n); return })
	return
}
func (f *File) Readdirnames(n int) (names []string, err error) {
	err = simple("readdir", f.name, func() (e error) { names, e = f.f.Readdirnames(n); return })
	return
}
func (f *File) SetDeadline(t time.Time) error { return f.f.SetDeadline(t) }

// ---- package-level operations ----------------------------------------------------------------

func ReadFile(name string) (b []byte, err error) {
	err = simple("readfile", name, func() (e error) { b, e = os.ReadFile(name); return })
	return
}

func WriteFile(name string, data []byte, perm FileMode) error {
	f, err := OpenFile(name, O_WRONLY|O_CREATE|O_TRUNC, perm)
	if err != nil {
		return err
	}
	_, err = f.Write(data)
	if err1 := f.Close(); err1 != nil && err == nil {
		err = err1
	}
	return err
}

func ReadDir(name string) (des []DirEntry, err error) {
	err = simple("readdir", name, func() (e error) { des, e = os.ReadDir(name); return })
	return
}
func Remove(name string) error    { return simple("remove", name, func() error { return os.Remove(name) }) }
func RemoveAll(name string) error { return simple("removeall", name, func() error { return os.RemoveAll(name) }) }
func Rename(o, n string) error {
	return simple("rename", n, func() error { return os.Rename(o, n) })
}
func Mkdir(name string, perm FileMode) error {
	return simple("mkdir", name, func() error { return os.Mkdir(name, perm) })
}
func MkdirAll(name string, perm FileMode) error {
	return simple("mkdirall", name, func() error { return os.MkdirAll(name, perm) })
}
func MkdirTemp(dir, pattern string) (s string, err error) {
	err = simple("mkdirtemp", dir, func() (e error) { s, e = os.MkdirTemp(dir, pattern); return })
	return
}
func CreateTemp(dir, pattern string) (*File, error) {
	var rf *os.File
	err := simple("createtemp", dir, func() (e error) { rf, e = os.CreateTemp(dir, pattern); return })
	if err != nil {
		if rf != nil {
			rf.Close()
		}
		return nil, err
	}
	f := &File{f: rf, name: rf.Name()}
	mu.Lock()
	open[f] = true
	mu.Unlock()
	return f, nil
}
func Stat(name string) (fi FileInfo, err error) {
	err = simple("stat", name, func() (e error) { fi, e = os.Stat(name); return })
	return
}
func Lstat(name string) (fi FileInfo, err error) {
	err = simple("lstat", name, func() (e error) { fi, e = os.Lstat(name); return })
	return
}
func Chmod(name string, m FileMode) error { return simple("chmod", name, func() error { return os.Chmod(name, m) }) }
func Truncate(name string, size int64) error {
	return simple("truncate", name, func() error { return os.Truncate(name, size) })
}
func Symlink(o, n string) error { return simple("symlink", n, func() error { return os.Symlink(o, n) }) }
func Link(o, n string) error    { return simple("link", n, func() error { return os.Link(o, n) }) }
func Chtimes(name string, a, m time.Time) error {
	return simple("chtimes", name, func() error { return os.Chtimes(name, a, m) })
}

func IsNotExist(err error) bool   { return os.IsNotExist(err) }
func IsExist(err error) bool      { return os.IsExist(err) }
func IsPermission(err error) bool { return os.IsPermission(err) }
func IsTimeout(err error) bool    { return os.IsTimeout(err) }
func IsPathSeparator(c uint8) bool { return os.IsPathSeparator(c) }
func SameFile(a, b FileInfo) bool { return os.SameFile(a, b) }
func DirFS(dir string) fs.FS      { return os.DirFS(dir) }

// ambient inputs: held fixed
func Getenv(k string) string {
	v := os.Getenv(k)
	if Ambient != 0 && k != "TEMPLATE_DEBUG" {
		return fmt.Sprintf("%s-alt%d", v, Ambient)
	}
	return v
}
func LookupEnv(k string) (string, bool) {
	v, ok := os.LookupEnv(k)
	if Ambient != 0 && k != "TEMPLATE_DEBUG" {
		return fmt.Sprintf("%s-alt%d", v, Ambient), true
	}
	return v, ok
}
func Setenv(k, v string) error           { return os.Setenv(k, v) }
func Unsetenv(k string) error            { return os.Unsetenv(k) }
func Environ() []string                  { return os.Environ() }
func ExpandEnv(s string) string          { return os.ExpandEnv(s) }
func Getpid() int                        { return 4242 + 17*Ambient }
func Getppid() int                       { return 4241 + 13*Ambient }
func Getuid() int                        { return 1000 }
func Getgid() int                        { return 1000 }
func Hostname() (string, error) {
	if Ambient != 0 {
		return fmt.Sprintf("simhost%d", Ambient), nil
	}
	return "simhost", nil
}
func Getwd() (string, error)             { return os.Getwd() }
func Chdir(d string) error               { return os.Chdir(d) }
func TempDir() string                    { return os.TempDir() }
func UserHomeDir() (string, error)       { return "/home/sim", nil }
func UserCacheDir() (string, error)      { return "/home/sim/.cache", nil }
func Executable() (string, error)        { return "/sim/goag", nil }
func Exit(code int)                      { os.Exit(code) }
func Getpagesize() int                   { return 4096 }
