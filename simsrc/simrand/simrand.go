// Package simrand replaces math/rand's top-level functions in rewritten code: the
// values come from the tape, so a generator that starts consuming ambient
// randomness becomes schedule-dependent (and is found) instead of invisible.
package simrand

import (
	mrand "math/rand"

	"github.com/vkd/goag/verifrt/verifhook"
)

type (
	Rand   = mrand.Rand
	Source = mrand.Source
)

func New(s Source) *Rand          { return mrand.New(s) }
func NewSource(seed int64) Source { return mrand.NewSource(seed) }
func Seed(int64)                  {}

func draw(n int) int {
	if verifhook.T == nil {
		return 0
	}
	return verifhook.T.Choose(n, "rand")
}
func Int() int             { return draw(1 << 30) }
func Intn(n int) int       { return draw(n) }
func Int31() int32         { return int32(draw(1 << 30)) }
func Int31n(n int32) int32 { return int32(draw(int(n))) }
func Int63() int64         { return int64(draw(1 << 30)) }
func Int63n(n int64) int64 {
	if n > 1<<30 {
		n = 1 << 30
	}
	return int64(draw(int(n)))
}
func Uint32() uint32   { return uint32(draw(1 << 30)) }
func Uint64() uint64   { return uint64(draw(1 << 30)) }
func Float64() float64 { return float64(draw(1<<30)) / float64(1<<30) }
func Float32() float32 { return float32(Float64()) }
func Perm(n int) []int {
	if verifhook.T == nil {
		p := make([]int, n)
		for i := range p {
			p[i] = i
		}
		return p
	}
	return verifhook.T.Perm(n, "rand.Perm")
}
func Shuffle(n int, swap func(i, j int)) {
	for i := n - 1; i > 0; i-- {
		swap(i, draw(i+1))
	}
}
