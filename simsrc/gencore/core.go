// Package gencore runs the real (rewritten) generator under the simulator's
// control: one invocation into one directory, in-process or through the
// instrumented CLI, and returns what happened.
package gencore

import (
	"bytes"
	"crypto/sha256"
	"encoding/hex"
	"encoding/json"
	"fmt"
	"io"
	"log"
	"os"
	"os/exec"
	"path/filepath"
	"regexp"
	"runtime"
	"sort"
	"strings"
	"time"

	"github.com/vkd/goag"
	"github.com/vkd/goag/verifrt/cliplan"
	"github.com/vkd/goag/verifrt/simos"
	"github.com/vkd/goag/verifrt/tape"
	"github.com/vkd/goag/verifrt/verifhook"
)

type Invocation struct {
	Corpus      string `json:"corpus"` // corpus entry name (informational)
	SpecName    string `json:"spec_name"`
	Spec        string `json:"spec"`
	HasConfig   bool   `json:"has_config"`
	Config      string `json:"config"`
	GenClient   bool   `json:"client"`
	APIHandler  bool   `json:"api_handler"`
	DoNotEdit   bool   `json:"donotedit"`
	BasePath    string `json:"basepath"`
	Package     string `json:"package"`
	SpecHandler string `json:"spec_handler"`
}

func (i Invocation) Hash() string {
	b, _ := json.Marshal(i)
	h := sha256.Sum256(b)
	return hex.EncodeToString(h[:8])
}

func (i Invocation) Flags() string {
	return fmt.Sprintf("client=%v api-handler=%v donotedit=%v basepath=%q package=%s spec-handler-name=%q", i.GenClient, i.APIHandler, i.DoNotEdit, i.BasePath, i.Package, i.SpecHandler)
}

// Materialise writes spec and config into inDir and returns their paths.
func (i Invocation) Materialise(inDir string) (spec, cfg string, err error) {
	if err = os.MkdirAll(inDir, 0o755); err != nil {
		return
	}
	spec = filepath.Join(inDir, i.SpecName)
	cfg = filepath.Join(inDir, ".goag.yaml")
	// spec and config are only rewritten when their content changes (a user does not touch them between runs)
	if old, e := os.ReadFile(spec); e != nil || string(old) != i.Spec {
		if err = os.WriteFile(spec, []byte(i.Spec), 0o644); err != nil {
			return
		}
		simos.Touch(spec)
	}
	if !i.HasConfig {
		os.Remove(cfg)
		return
	}
	if old, e := os.ReadFile(cfg); e != nil || string(old) != i.Config {
		if err = os.WriteFile(cfg, []byte(i.Config), 0o644); err == nil {
			simos.Touch(cfg)
		}
	}
	return
}

type Sched struct {
	Tape        *tape.Tape
	Active      map[int]bool // nil = all sites
	ClockOffset time.Duration
	FaultAt     int // -1 none
	Kind        string
	TornNum     int
	TornDen     int
	Ambient     int
	SiteSeeds   map[int]uint32 // per-site permutation seeds (nil: permutations are drawn from Tape)
	Stall       bool           // every timer/deadline the generator sets has already expired (frozen or starved process)
	// RelPaths: change into the directory above the out dir and hand the generator relative paths
	// (the way the CLI is normally used), instead of absolute ones.
	RelPaths bool
	// FixedSchedule: goroutines of the generator are interleaved as in the zero-tape baseline
	FixedSchedule bool
}

// relativise changes the working directory to base and returns the paths relative to it plus a restore func.
func relativise(base string, paths ...*string) (restore func()) {
	old, err := os.Getwd()
	if err != nil || os.Chdir(base) != nil {
		return func() {}
	}
	for _, p := range paths {
		if r, err := filepath.Rel(base, *p); err == nil {
			*p = r
		}
	}
	return func() { os.Chdir(old) }
}

func NoFault() (int, string) { return -1, simos.KNone }

type Result struct {
	Err      string       `json:"err,omitempty"` // error reported by the generator ("" = success)
	Crashed  bool         `json:"crashed,omitempty"`
	Panic    string       `json:"panic,omitempty"` // a panic that is not an injected crash
	Fired    bool         `json:"fired,omitempty"`
	NotAppl  bool         `json:"not_applicable,omitempty"`
	Reached  bool         `json:"reached,omitempty"` // the call index FaultAt was reached
	Calls    []simos.Call `json:"calls,omitempty"`
	Deviated []int        `json:"deviated,omitempty"`
	Events   []string     `json:"-"`
	Seen     map[int]int  `json:"-"` // site -> largest map seen in this run
	// Stragglers: goroutines started by the generator were still running when it returned.
	Stragglers bool   `json:"stragglers,omitempty"`
	LateWrite  string `json:"late_write,omitempty"` // a file changed after the generator had returned
	// go-scheduler: goroutines the generator started itself ran as tasks, interleaved by the tape
	SchedTasks    int      `json:"sched_tasks,omitempty"`
	SchedPicks    int      `json:"sched_picks,omitempty"`
	SchedDeviated int      `json:"sched_deviated,omitempty"` // decisions that did not take the first candidate
	SchedGaveUp   string   `json:"sched_gave_up,omitempty"`
	SchedTrace    []string `json:"-"`
}

func (r *Result) noteSched() {
	r.SchedTasks, r.SchedPicks, r.SchedDeviated, r.SchedGaveUp = verifhook.SchedTasks, verifhook.SchedPicks, verifhook.SchedDeviated+verifhook.SelectDeviated, verifhook.SchedGaveUp
	r.SchedTrace = append([]string(nil), verifhook.SchedTrace...)
	if verifhook.TaskPanic != "" && r.Panic == "" {
		r.Panic = "in a goroutine started by the generator: " + verifhook.TaskPanic
	}
}

// runDirRe strips the per-execution scratch directory (its number depends on how
// many executions a time-boxed shrink performed, which must not leak into logs).
var runDirRe = regexp.MustCompile(`^/[a-z]+[0-9]+`)

var baseClock = time.Date(2026, 1, 2, 3, 4, 5, 6, time.UTC)

func init() { log.SetOutput(io.Discard) }

// RunInProcess executes one invocation in this process.
func RunInProcess(inv Invocation, inDir, outDir string, s Sched, root string) (res Result) {
	spec, cfg, err := inv.Materialise(inDir)
	if err != nil {
		panic(err)
	}
	verifhook.ResetRun(s.Tape, s.Active)
	verifhook.SiteSeeds = s.SiteSeeds
	verifhook.Clock = baseClock.Add(s.ClockOffset)
	var events []string
	verifhook.EventLog = func(e string) { events = append(events, e) }
	simos.PathMap = func(p string) string { return runDirRe.ReplaceAllString(strings.TrimPrefix(p, root), "") }
	simos.CLIMode = false
	simos.Ambient, verifhook.Ambient = s.Ambient, s.Ambient
	verifhook.Stall = s.Stall
	verifhook.SchedFixed = s.FixedSchedule
	simos.Reset(s.FaultAt, s.Kind, s.TornNum, s.TornDen)
	goroutinesBefore := runtime.NumGoroutine()
	func() {
		defer func() {
			if r := recover(); r != nil {
				if _, ok := r.(simos.Crash); ok {
					res.Crashed = true
					return
				}
				res.Panic = fmt.Sprint(r)
			}
		}()
		g := goag.Generator{GenClient: inv.GenClient, GenAPIHandler: inv.APIHandler, DoNotEdit: inv.DoNotEdit}
		out := outDir
		if s.RelPaths {
			defer relativise(filepath.Dir(outDir), &out, &spec, &cfg)()
		}
		if e := g.GenerateFile(out, inv.Package, spec, inv.BasePath, cfg, inv.SpecHandler); e != nil {
			res.Err = e.Error()
		}
	}()
	// a generator that returns while goroutines it started are still at work: wait for them (they would
	// otherwise draw from the next run's tape) and note whether they still changed files
	if verifhook.TasksAlive() == 0 {
		// tasks that have finished may need a moment to leave their goroutines
		for i := 0; i < 40 && runtime.NumGoroutine() > goroutinesBefore; i++ {
			time.Sleep(50 * time.Microsecond)
		}
	}
	if runtime.NumGoroutine() > goroutinesBefore {
		res.Stragglers = true
		atReturn := Snapshot(outDir)
		verifhook.Drain() // tasks of the go-scheduler are parked: let them run to their end under the same tape
		for i := 0; i < 300 && runtime.NumGoroutine() > goroutinesBefore; i++ {
			time.Sleep(time.Millisecond)
		}
		if n, c, _ := DiffSnap(atReturn, Snapshot(outDir)); n != "" {
			res.LateWrite = n + " " + c
		}
	}
	if simos.Dead {
		res.Crashed = true
	}
	res.Fired, res.NotAppl = simos.Fired, simos.NotAppl
	res.Reached = s.FaultAt >= 0 && simos.Calls > s.FaultAt
	res.Calls = append([]simos.Call(nil), simos.Log...)
	for id := range verifhook.RunDeviated {
		res.Deviated = append(res.Deviated, id)
	}
	sort.Ints(res.Deviated)
	res.Events = events
	res.noteSched()
	res.Seen = map[int]int{}
	for k, v := range verifhook.RunSeen {
		res.Seen[k] = v
	}
	simos.Reset(-1, simos.KNone, 1, 2)
	simos.Ambient, verifhook.Ambient = 0, 0
	verifhook.Stall = false
	verifhook.SchedFixed = false
	verifhook.ResetRun(nil, nil)
	verifhook.EventLog = nil
	return
}

// RunDirInProcess runs the generator's -dir mode over root: every sub-directory holds one materialised
// invocation ("openapi.yaml" + optional ".goag.yaml") and receives its output in <sub>/out. All sub-directories
// share the flags of the first invocation (that is what -dir mode does).
func RunDirInProcess(invs []Invocation, names []string, rootDir string, s Sched, root string) (res Result) {
	for i, inv := range invs {
		if _, _, err := inv.Materialise(filepath.Join(rootDir, names[i])); err != nil {
			panic(err)
		}
	}
	verifhook.ResetRun(s.Tape, s.Active)
	verifhook.SiteSeeds = s.SiteSeeds
	verifhook.Clock = baseClock.Add(s.ClockOffset)
	simos.PathMap = func(p string) string { return runDirRe.ReplaceAllString(strings.TrimPrefix(p, root), "") }
	simos.CLIMode = false
	simos.Ambient, verifhook.Ambient = s.Ambient, s.Ambient
	verifhook.Stall = s.Stall
	simos.Reset(-1, simos.KNone, 1, 2)
	func() {
		defer func() {
			if r := recover(); r != nil {
				res.Panic = fmt.Sprint(r)
			}
		}()
		f := invs[0]
		g := goag.Generator{GenClient: f.GenClient, GenAPIHandler: f.APIHandler, DoNotEdit: f.DoNotEdit}
		if e := g.GenerateDir(rootDir, "out", f.Package, f.SpecName, f.BasePath, ".goag.yaml", f.SpecHandler); e != nil {
			res.Err = e.Error()
		}
	}()
	if verifhook.TasksAlive() > 0 {
		res.Stragglers = true
		verifhook.Drain()
	}
	res.noteSched()
	for id := range verifhook.RunDeviated {
		res.Deviated = append(res.Deviated, id)
	}
	sort.Ints(res.Deviated)
	simos.Reset(-1, simos.KNone, 1, 2)
	simos.Ambient, verifhook.Ambient = 0, 0
	verifhook.Stall = false
	verifhook.ResetRun(nil, nil)
	return
}

// RunCLI executes one invocation through the instrumented cmd/goag binary.
func RunCLI(cli string, inv Invocation, inDir, outDir string, s Sched, tapeVals []uint32, masked []int, planFile string) (res Result) {
	spec, cfg, err := inv.Materialise(inDir)
	if err != nil {
		panic(err)
	}
	p := cliplan.Plan{Tape: tapeVals, AllActive: s.Active == nil, ClockOffsetNs: int64(s.ClockOffset), FaultAt: s.FaultAt, Kind: s.Kind,
		TornNum: s.TornNum, TornDen: s.TornDen, Log: planFile + ".log", Masked: masked, Ambient: s.Ambient, Stall: s.Stall, SiteSeeds: s.SiteSeeds}
	for id := range s.Active {
		p.Active = append(p.Active, id)
	}
	sort.Ints(p.Active)
	b, _ := json.Marshal(p)
	if err := os.WriteFile(planFile, b, 0o644); err != nil {
		panic(err)
	}
	os.Remove(p.Log)
	args := []string{
		"-file", spec, "-out", outDir, "-package", inv.Package, "-config", cfg,
		"-basepath", inv.BasePath, fmt.Sprintf("-client=%v", inv.GenClient), fmt.Sprintf("-donotedit=%v", inv.DoNotEdit),
		"-spec-handler-name", inv.SpecHandler, fmt.Sprintf("-api-handler=%v", inv.APIHandler),
	}
	cmd := exec.Command(cli, args...)
	if s.RelPaths {
		base := filepath.Dir(outDir)
		rel := func(p string) string {
			if r, err := filepath.Rel(base, p); err == nil {
				return r
			}
			return p
		}
		args[1], args[3], args[7] = rel(spec), rel(outDir), rel(cfg)
		cmd = exec.Command(cli, args...)
		cmd.Dir = base
	}
	cmd.Env = append(os.Environ(), "VERIF_GENSIM_PLAN="+planFile, "TEMPLATE_DEBUG=")
	var stderr bytes.Buffer
	cmd.Stderr = &stderr
	cmd.Stdout = io.Discard
	err = cmd.Run()
	if err != nil {
		if ee, ok := err.(*exec.ExitError); ok {
			switch ee.ExitCode() {
			case 137:
				res.Crashed = true
			case 2:
				if strings.Contains(stderr.String(), "panic:") || strings.Contains(stderr.String(), "goroutine ") {
					res.Panic = firstLine(stderr.String())
				} else {
					res.Err = "exit 2: " + firstLine(stderr.String())
				}
			default:
				res.Err = fmt.Sprintf("exit %d: %s", ee.ExitCode(), firstLine(stderr.String()))
			}
		} else {
			panic(err)
		}
	}
	if lb, err := os.ReadFile(p.Log); err == nil {
		for _, line := range strings.Split(string(lb), "\n") {
			var c simos.Call
			if strings.HasPrefix(line, `{"i"`) && json.Unmarshal([]byte(line), &c) == nil {
				if c.Idx == -1 && c.Op == "FAULT-FIRED" {
					res.Fired = true
					continue
				}
				res.Calls = append(res.Calls, c)
				if c.Idx == s.FaultAt {
					res.Reached = true
				}
			}
		}
	}
	os.Remove(p.Log)
	os.Remove(planFile)
	return
}

func firstLine(s string) string {
	s = strings.TrimSpace(s)
	if i := strings.IndexByte(s, '\n'); i >= 0 {
		s = s[:i]
	}
	if len(s) > 300 {
		s = s[:300]
	}
	return s
}

// Snapshot reads every regular file below dir (relative slash paths -> bytes).
func Snapshot(dir string) map[string]string {
	out := map[string]string{}
	filepath.Walk(dir, func(p string, fi os.FileInfo, err error) error {
		if err != nil || fi.IsDir() {
			return nil
		}
		rel, _ := filepath.Rel(dir, p)
		b, _ := os.ReadFile(p)
		out[filepath.ToSlash(rel)] = string(b)
		return nil
	})
	return out
}

func SnapHash(m map[string]string) string {
	names := make([]string, 0, len(m))
	for n := range m {
		names = append(names, n)
	}
	sort.Strings(names)
	h := sha256.New()
	for _, n := range names {
		fmt.Fprintf(h, "%s\x00%d\x00%s\x00", n, len(m[n]), m[n])
	}
	return hex.EncodeToString(h.Sum(nil)[:8])
}

// DiffSnap describes the first difference between two snapshots ("" = equal).
func DiffSnap(want, got map[string]string) (name, class, detail string) {
	names := map[string]bool{}
	for n := range want {
		names[n] = true
	}
	for n := range got {
		names[n] = true
	}
	ns := make([]string, 0, len(names))
	for n := range names {
		ns = append(ns, n)
	}
	sort.Strings(ns)
	for _, n := range ns {
		w, wok := want[n]
		g, gok := got[n]
		switch {
		case wok && !gok:
			return n, "missing", ""
		case !wok && gok:
			return n, "stale", ""
		case w != g:
			return n, "differs", firstDiff(w, g)
		}
	}
	return "", "", ""
}

func firstDiff(a, b string) string {
	al, bl := strings.Split(a, "\n"), strings.Split(b, "\n")
	for i := 0; i < len(al) || i < len(bl); i++ {
		var x, y string
		if i < len(al) {
			x = al[i]
		}
		if i < len(bl) {
			y = bl[i]
		}
		if x != y {
			return fmt.Sprintf("line %d:\n- %s\n+ %s", i+1, clip(x), clip(y))
		}
	}
	return ""
}

func clip(s string) string {
	if len(s) > 200 {
		return s[:200] + "…"
	}
	return s
}
