package pkg

type Dog struct {
	Name string
	Tag  Maybe[string]
}

type DogSchema struct {
	Name string
	Tag  Maybe[string]
}

func (d *Dog) SetFromSchemaDog(s DogSchema) error {
	*d = Dog{
		Name: s.Name,
		Tag:  s.Tag,
	}
	return nil
}

func (d Dog) ToSchemaDog() DogSchema {
	return DogSchema{
		Name: d.Name,
		Tag:  d.Tag,
	}
}

type Dog2 struct {
	Name    Maybe[string]
	PetType string
	Tag     Maybe[string]
}

type DogSchema2 struct {
	Name    Maybe[string]
	PetType string
	Tag     Maybe[string]
}

func (d *Dog2) SetFromSchemaDog2(s DogSchema2) error {
	*d = Dog2(s)
	return nil
}

func (d Dog2) ToSchemaDog2() DogSchema2 {
	return DogSchema2(d)
}

type Maybe[T any] struct {
	IsSet bool
	Value T
}

func Nothing[T any]() Maybe[T] {
	return Maybe[T]{}
}

func Just[T any](v T) Maybe[T] {
	return Maybe[T]{
		IsSet: true,
		Value: v,
	}
}

func (m Maybe[T]) Get() (zero T, _ bool) {
	if m.IsSet {
		return m.Value, true
	}
	return zero, false
}

func (m *Maybe[T]) Set(v T) {
	m.IsSet = true
	m.Value = v
}

type Nullable[T any] struct {
	IsSet bool
	Value T
}

func Null[T any]() Nullable[T] {
	return Nullable[T]{}
}

func Pointer[T any](v T) Nullable[T] {
	return Nullable[T]{
		IsSet: true,
		Value: v,
	}
}

func (m Nullable[T]) Get() (zero T, _ bool) {
	if m.IsSet {
		return m.Value, true
	}
	return zero, false
}

func (m *Nullable[T]) Set(v T) {
	m.IsSet = true
	m.Value = v
}
