package pkg

import "fmt"

type Page string

func (s Page) String() string { return string(s) }

func (s *Page) ParseString(v string) error {
	*s = Page(v)
	return nil
}

type PageCustomTypeQuery string

func (s PageCustomTypeQuery) String() string { return string(s) }

func (s *PageCustomTypeQuery) ParseString(v string) error {
	*s = PageCustomTypeQuery(v)
	return nil
}

type Shop string

func (s *Shop) ParseString(str string) error {
	*s = Shop(str)
	return nil
}

func (s Shop) String() string {
	return string(s)
}

type Metadata struct {
	InternalID string
	OK         bool
}

type MetadataSchema struct {
	InnerID Maybe[string]
}

func (m *Metadata) SetFromSchemaMetadata(v MetadataSchema) error {
	*m = Metadata{
		InternalID: v.InnerID.Value,
		OK:         v.InnerID.IsSet,
	}
	return nil
}

func (m Metadata) ToSchemaMetadata() MetadataSchema {
	return MetadataSchema{
		InnerID: Just(m.InternalID),
	}
}

type Settings struct {
	Theme Maybe[string] `json:"theme"`
}

type SettingsSchema struct {
	Theme Maybe[string]
}

type GetShopAdditionals struct {
	AdditionalProperties map[string]any
}

func (s *Settings) SetFromSchemaSettings(v SettingsSchema) error {
	*s = Settings{
		Theme: v.Theme,
	}
	return nil
}

func (s *Settings) SetFromSchemaGetShopAdditionals(v GetShopAdditionals) error {
	s.Theme.IsSet = false
	if theme, ok := v.AdditionalProperties["theme"]; ok {
		switch theme := theme.(type) {
		case string:
			s.Theme.Set(theme)
		default:
			return fmt.Errorf("unknown type: %T", theme)
		}
	}
	return nil
}

func (s Settings) ToSchemaSettings() SettingsSchema {
	return SettingsSchema{
		Theme: s.Theme,
	}
}

func (s Settings) ToSchemaGetShopAdditionals() GetShopAdditionals {
	if t, ok := s.Theme.Get(); ok {
		return GetShopAdditionals{
			AdditionalProperties: map[string]any{
				"theme": t,
			},
		}
	}
	return GetShopAdditionals{}
}

type Environments []Environment

func (e Environments) ToSchemaEnvironments() Environments { return e }

func (e *Environments) SetFromSchemaEnvironments(s Environments) error {
	*e = s
	return nil
}

type Environment struct {
	Name  string `json:"name"`
	Value string `json:"value"`
}

type EnvironmentSchema struct {
	EnvironmentCreate
	Value string
}

func (e *Environment) SetFromSchemaEnvironment(v EnvironmentSchema) error {
	*e = Environment{
		Name:  v.EnvironmentCreate.Name,
		Value: v.Value,
	}
	return nil
}

func (e Environment) ToSchemaEnvironment() EnvironmentSchema {
	return EnvironmentSchema{
		EnvironmentCreate: EnvironmentCreate{
			Name: e.Name,
		},
		Value: e.Value,
	}
}

type EnvironmentCreate struct {
	Name string
}

func (e *EnvironmentCreate) SetFromSchemaEnvironmentCreate(v struct {
	Name string
}) error {
	*e = EnvironmentCreate{
		Name: v.Name,
	}
	return nil
}

func (e EnvironmentCreate) ToSchemaEnvironmentCreate() EnvironmentCreate {
	return EnvironmentCreate{
		Name: e.Name,
	}
}

type Maybe[T any] struct {
	IsSet bool
	Value T
}

func Nothing[T any]() Maybe[T] {
	return Maybe[T]{}
}

func Just[T any](v T) Maybe[T] {
	return Maybe[T]{
		IsSet: true,
		Value: v,
	}
}

func (m Maybe[T]) Get() (zero T, _ bool) {
	if m.IsSet {
		return m.Value, true
	}
	return zero, false
}

func (m *Maybe[T]) Set(v T) {
	m.IsSet = true
	m.Value = v
}

type Nullable[T any] struct {
	IsSet bool
	Value T
}

func Null[T any]() Nullable[T] {
	return Nullable[T]{}
}

func Pointer[T any](v T) Nullable[T] {
	return Nullable[T]{
		IsSet: true,
		Value: v,
	}
}

func (m Nullable[T]) Get() (zero T, _ bool) {
	if m.IsSet {
		return m.Value, true
	}
	return zero, false
}

func (m *Nullable[T]) Set(v T) {
	m.IsSet = true
	m.Value = v
}
