package pkg

type Page string

func (s Page) String() string { return string(s) }

func (s Page) Strings() []string { return []string{s.String()} }

func (s *Page) ParseString(v string) error {
	*s = Page(v)
	return nil
}
