// Package harness binds a generated package (through the reflection registry the
// instrumenter emitted into it) to the simulator: generic recording handlers,
// authenticators, middlewares, the wire-level client transport, and the executor
// that runs a plan of requests under a schedule.
package harness

import (
	"context"
	"fmt"
	"net/http"
	"reflect"
	"sort"
	"strconv"
	"strings"

	"github.com/getkin/kin-openapi/openapi3"

	"verifsim/values"
)

type RegistryFunc func() (types map[string]reflect.Type, globals map[string]any, funcs map[string]any, oneOf []string)

type Pkg struct {
	Name          string
	ImportPath    string
	Class         string
	Spec          string
	Types         map[string]reflect.Type
	Globals       map[string]any
	Funcs         map[string]any
	OneOf         map[string]bool
	APIType       reflect.Type
	ClientType    reflect.Type
	Ops           []*Op
	SecFields     []int
	MwField       int
	CORSField     int
	SpecField     int
	NotFoundField int
	YieldFunc     map[int]string // yield site -> function name
	PkgID         int
	UsesSync      bool
	globalInit    map[string]reflect.Value
	globalMaps    []string
	NoRace        bool // goroutines or channel operations of its own: orderings the race detector does not model
	UnsimSync     bool // uses synchronisation the simulator does not model (atomic, Once, Cond, WaitGroup, ...)
	Swagger       *openapi3.Swagger
	BasePathFlag  string
	Discr         map[string]*values.DiscrInfo
	Schemes       []Scheme // security schemes of the spec, sorted by name
	Base          string   // base path the router serves under (read from the generated router)
}

func normName(s string) string {
	return strings.Map(func(c rune) rune {
		switch {
		case c >= 'a' && c <= 'z', c >= '0' && c <= '9':
			return c
		case c >= 'A' && c <= 'Z':
			return c + 32
		}
		return -1
	}, s)
}

// Scheme is one security scheme of the spec as far as the transport needs it to inject a credential.
type Scheme struct {
	ID     string
	In     string // query | header | "" (http bearer)
	Name   string
	Bearer bool
}

// SetBase records the base path of a registered package.
func SetBase(name, base, flag string) {
	for _, p := range Packages {
		if p.Name == name {
			p.Base, p.BasePathFlag = base, flag
		}
	}
}

// URL is the BaseURL handed to the generated client: the server URL including the base path.
func (p *Pkg) URL() string { return BaseURL + p.Base }

type Op struct {
	Name        string
	Field       int
	FuncType    reflect.Type
	ReqIface    reflect.Type
	RespIface   reflect.Type
	ParamsType  reflect.Type
	RespTypes   []reflect.Type
	Path        string
	Method      string
	HasDefault  bool
	DocCodes    map[int]bool
	Unsupported string
	SpecFound   bool
	SpecDefault bool
}

var ctxType = reflect.TypeOf((*context.Context)(nil)).Elem()
var handlerType = reflect.TypeOf((*http.Handler)(nil)).Elem()

var Packages []*Pkg

// SetNoRace switches the happens-before race detector off for a package.
func SetNoRace(name string) {
	for _, p := range Packages {
		if p.Name == name {
			p.NoRace = true
		}
	}
}

func Register(name, importPath, class, spec string, pkgID int, usesSync, unsimSync bool, yieldFuncs map[int]string, reg RegistryFunc) {
	types, globals, funcs, oneOf := reg()
	p := &Pkg{Name: name, ImportPath: importPath, Class: class, Spec: spec, Types: types, Globals: globals, Funcs: funcs, OneOf: map[string]bool{},
		MwField: -1, CORSField: -1, SpecField: -1, NotFoundField: -1, YieldFunc: yieldFuncs, PkgID: pkgID, UsesSync: usesSync, UnsimSync: unsimSync}
	for _, o := range oneOf {
		p.OneOf[o] = true
	}
	p.APIType = types["API"]
	p.ClientType = types["Client"]
	if p.APIType == nil || p.ClientType == nil {
		return // package without router or client: not usable by rtsim
	}
	names := make([]string, 0, len(types))
	for n := range types {
		names = append(names, n)
	}
	sort.Strings(names)
	for i := 0; i < p.APIType.NumField(); i++ {
		f := p.APIType.Field(i)
		ft := f.Type
		switch {
		case f.Name == "Middlewares":
			p.MwField = i
		case f.Name == "CORSHandler":
			p.CORSField = i
		case f.Name == "SpecFileHandler":
			p.SpecField = i
		case f.Name == "NotFoundHandler":
			p.NotFoundField = i
		case ft.Kind() == reflect.Func && ft.NumIn() == 2 && ft.In(0) == ctxType && ft.NumOut() == 1 && ft.Out(0).Kind() == reflect.Interface && strings.HasSuffix(f.Name, "Handler"):
			op := &Op{Name: strings.TrimSuffix(f.Name, "Handler"), Field: i, FuncType: ft, ReqIface: ft.In(1), RespIface: ft.Out(0), DocCodes: map[int]bool{}}
			if m, ok := op.ReqIface.MethodByName("Parse"); ok && m.Type.NumOut() >= 1 {
				op.ParamsType = m.Type.Out(0)
			} else {
				op.Unsupported = "request interface without Parse()"
			}
			z := reflect.Zero(ft)
			if m := z.MethodByName("Path"); m.IsValid() {
				op.Path = m.Call(nil)[0].String()
			}
			if m := z.MethodByName("Method"); m.IsValid() {
				op.Method = m.Call(nil)[0].String()
			}
			for _, n := range names {
				t := types[n]
				if t.Kind() == reflect.Struct && t.Implements(op.RespIface) && t != op.ParamsType {
					op.RespTypes = append(op.RespTypes, t)
					if _, ok := t.FieldByName("Code"); ok {
						op.HasDefault = true
					}
				}
			}
			if _, ok := reflect.PointerTo(p.ClientType).MethodByName(op.Name); !ok {
				op.Unsupported = "no client method"
			}
			p.Ops = append(p.Ops, op)
		case ft.Kind() == reflect.Func && ft.NumIn() == 2 && ft.NumOut() == 2:
			if _, ok := ft.MethodByName("Auth"); ok {
				p.SecFields = append(p.SecFields, i)
			}
		}
	}
	p.loadSpec()
	Packages = append(Packages, p)
}

// loadSpec reads the documented status codes of every operation from the OpenAPI text.
func (p *Pkg) loadSpec() {
	sw, err := openapi3.NewSwaggerLoader().LoadSwaggerFromData([]byte(p.Spec))
	if err != nil {
		return
	}
	p.Swagger = sw
	var ids []string
	for id := range sw.Components.SecuritySchemes {
		ids = append(ids, id)
	}
	sort.Strings(ids)
	for _, id := range ids {
		if ss := sw.Components.SecuritySchemes[id]; ss != nil && ss.Value != nil {
			v := ss.Value
			p.Schemes = append(p.Schemes, Scheme{ID: id, In: v.In, Name: v.Name, Bearer: v.Type == "http"})
		}
	}
	p.Discr = map[string]*values.DiscrInfo{}
	for name, ref := range sw.Components.Schemas {
		sc := ref.Value
		if sc == nil || len(sc.OneOf) == 0 || sc.Discriminator == nil {
			continue
		}
		var goName string
		for tn := range p.OneOf {
			if normName(tn) == normName(name) {
				goName = tn
			}
		}
		if goName == "" {
			continue
		}
		di := &values.DiscrInfo{Prop: sc.Discriminator.PropertyName}
		for _, v := range sc.OneOf {
			var keys []string
			mks := make([]string, 0, len(sc.Discriminator.Mapping))
			for k := range sc.Discriminator.Mapping {
				mks = append(mks, k)
			}
			sort.Strings(mks)
			for _, k := range mks {
				if sc.Discriminator.Mapping[k] == v.Ref && v.Ref != "" {
					keys = append(keys, k)
				}
			}
			if len(keys) == 0 && v.Ref != "" {
				keys = []string{v.Ref[strings.LastIndex(v.Ref, "/")+1:]}
			}
			di.Keys = append(di.Keys, keys)
		}
		p.Discr[goName] = di
	}
	for _, op := range p.Ops {
		pi := sw.Paths[op.Path]
		if pi == nil {
			continue
		}
		o := pi.GetOperation(op.Method)
		if o == nil {
			continue
		}
		op.SpecFound = true
		for code := range o.Responses {
			if code == "default" {
				op.SpecDefault = true
				continue
			}
			if n, err := strconv.Atoi(code); err == nil {
				op.DocCodes[n] = true
			}
		}
	}
}

func (p *Pkg) String() string { return fmt.Sprintf("%s(%d ops)", p.Name, len(p.Ops)) }
