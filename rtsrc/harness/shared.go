package harness

import (
	"fmt"
	"hash/fnv"
	"reflect"
	"sort"
	"strings"
)

// deepHash walks a value structurally (pointers, slices, maps followed; funcs by code
// pointer; harness-owned types by identity only).
type hasher struct {
	h    uint64
	seen map[uintptr]bool
}

func (hs *hasher) add(b ...byte) {
	for _, c := range b {
		hs.h ^= uint64(c)
		hs.h *= 1099511628211
	}
}
func (hs *hasher) addU(u uint64) {
	for i := 0; i < 8; i++ {
		hs.add(byte(u >> (8 * i)))
	}
}

func harnessOwned(t reflect.Type) bool {
	for t.Kind() == reflect.Pointer {
		t = t.Elem()
	}
	// the instrumented generated packages live under verifsim/gen/: those are the code under test, not the harness
	return strings.HasPrefix(t.PkgPath(), "verifsim/") && !strings.HasPrefix(t.PkgPath(), "verifsim/gen/")
}

func (hs *hasher) walk(v reflect.Value, d int) {
	if !v.IsValid() || d > 64 {
		hs.add(0xff)
		return
	}
	hs.add(byte(v.Kind()))
	switch v.Kind() {
	case reflect.Bool:
		if v.Bool() {
			hs.add(1)
		} else {
			hs.add(0)
		}
	case reflect.Int, reflect.Int8, reflect.Int16, reflect.Int32, reflect.Int64:
		hs.addU(uint64(v.Int()))
	case reflect.Uint, reflect.Uint8, reflect.Uint16, reflect.Uint32, reflect.Uint64, reflect.Uintptr:
		hs.addU(v.Uint())
	case reflect.Float32, reflect.Float64:
		hs.add([]byte(fmt.Sprint(v.Float()))...)
	case reflect.Complex64, reflect.Complex128:
		hs.add([]byte(fmt.Sprint(v.Complex()))...)
	case reflect.String:
		hs.add([]byte(v.String())...)
		hs.addU(uint64(v.Len()))
	case reflect.Func:
		if v.IsNil() {
			hs.add(0)
		} else {
			hs.addU(uint64(v.Pointer()))
		}
	case reflect.Chan, reflect.UnsafePointer:
		hs.addU(uint64(v.Pointer()))
	case reflect.Pointer:
		if v.IsNil() {
			hs.add(0)
			return
		}
		if harnessOwned(v.Type()) {
			hs.addU(uint64(v.Pointer()))
			return
		}
		p := v.Pointer()
		if hs.seen[p] {
			hs.add(0xfe)
			return
		}
		hs.seen[p] = true
		hs.walk(v.Elem(), d+1)
	case reflect.Interface:
		if v.IsNil() {
			hs.add(0)
			return
		}
		e := v.Elem()
		hs.add([]byte(e.Type().String())...)
		if harnessOwned(e.Type()) {
			if e.Kind() == reflect.Pointer {
				hs.addU(uint64(e.Pointer()))
			}
			return
		}
		hs.walk(e, d+1)
	case reflect.Slice:
		if v.IsNil() {
			hs.add(0)
			return
		}
		hs.addU(uint64(v.Len()))
		if v.Type().Elem().Kind() == reflect.Uint8 {
			hs.add(v.Bytes()...)
			return
		}
		// the spare capacity belongs to the shared backing array too: append() writes there without changing len
		full := v
		if v.Cap() > v.Len() && v.Cap()-v.Len() <= 64 {
			full = v.Slice(0, v.Cap())
		}
		for i := 0; i < full.Len(); i++ {
			hs.walk(full.Index(i), d+1)
		}
	case reflect.Array:
		for i := 0; i < v.Len(); i++ {
			hs.walk(v.Index(i), d+1)
		}
	case reflect.Map:
		if v.IsNil() {
			hs.add(0)
			return
		}
		keys := v.MapKeys()
		ks := make([]string, len(keys))
		idx := map[string]reflect.Value{}
		for i, k := range keys {
			ks[i] = fmt.Sprint(k)
			idx[ks[i]] = k
		}
		sort.Strings(ks)
		for _, k := range ks {
			hs.add([]byte(k)...)
			hs.walk(v.MapIndex(idx[k]), d+1)
		}
	case reflect.Struct:
		if pp := v.Type().PkgPath(); pp == "sync" || pp == "sync/atomic" {
			return // the internal state of a lock or atomic is not data: acquiring a mutex is not a write to shared state
		}
		for i := 0; i < v.NumField(); i++ {
			hs.walk(v.Field(i), d+1)
		}
	}
}

func hashValue(v reflect.Value) uint64 {
	hs := &hasher{h: fnv.New64a().Sum64(), seen: map[uintptr]bool{}}
	hs.walk(v, 0)
	return hs.h
}

func (e *env) sharedParts() (names []string, vals []reflect.Value) {
	gn := make([]string, 0, len(e.p.Globals))
	for n := range e.p.Globals {
		gn = append(gn, n)
	}
	sort.Strings(gn)
	for _, n := range gn {
		names = append(names, "package variable "+n)
		vals = append(vals, reflect.ValueOf(e.p.Globals[n]).Elem())
	}
	names = append(names, "the shared API value", "the shared Client value")
	vals = append(vals, e.api.Elem(), e.cli.Elem())
	return
}

var lastParts []uint64

func (e *env) sharedHash() uint64 {
	_, vals := e.sharedParts()
	var h uint64 = 1469598103934665603
	parts := make([]uint64, len(vals))
	for i, v := range vals {
		parts[i] = hashValue(v)
		h = h*1099511628211 ^ parts[i]
	}
	prevParts, lastParts = lastParts, parts
	return h
}

var prevParts []uint64

// sharedDiff names what changed between the last two hashes.
func (e *env) sharedDiff() string {
	names, _ := e.sharedParts()
	var out []string
	for i := range names {
		if i < len(prevParts) && i < len(lastParts) && prevParts[i] != lastParts[i] {
			out = append(out, names[i])
		}
	}
	if len(out) == 0 {
		return "shared state"
	}
	return strings.Join(out, ", ")
}

// resetGlobals puts every package-level variable of the generated package back to the value it had when the
// process started (shallow: scalars, arrays, strings, slice headers, pointers; maps are emptied and refilled with
// their initial entries). Every execution - the solo references and the concurrent run - then starts from one
// and the same state: without this a request that leaves its bytes in a package-level scratch variable is invisible
// to the shared-state hash whenever its own solo reference run has already left the very same bytes there.
// Variables that hold funcs (hooks the harness installs) or locks, pools and atomics are left alone.
func (p *Pkg) resetGlobals() {
	if p.globalInit == nil {
		p.globalInit = map[string]reflect.Value{}
		for n, g := range p.Globals {
			v := reflect.ValueOf(g).Elem()
			if !resettable(v.Type(), 0) {
				continue
			}
			c := reflect.New(v.Type()).Elem()
			if v.Kind() == reflect.Map && !v.IsNil() {
				c.Set(reflect.MakeMapWithSize(v.Type(), v.Len()))
				it := v.MapRange()
				for it.Next() {
					c.SetMapIndex(it.Key(), it.Value())
				}
				p.globalMaps = append(p.globalMaps, n)
			} else {
				c.Set(v)
			}
			p.globalInit[n] = c
		}
		return
	}
	for n, init := range p.globalInit {
		v := reflect.ValueOf(p.Globals[n]).Elem()
		if v.Kind() == reflect.Map && !init.IsNil() {
			if v.IsNil() {
				continue
			}
			for _, k := range v.MapKeys() {
				v.SetMapIndex(k, reflect.Value{})
			}
			it := init.MapRange()
			for it.Next() {
				v.SetMapIndex(it.Key(), it.Value())
			}
			continue
		}
		v.Set(init)
	}
}

func resettable(t reflect.Type, d int) bool {
	if d > 8 {
		return false
	}
	if pp := t.PkgPath(); pp == "sync" || pp == "sync/atomic" {
		return false
	}
	switch t.Kind() {
	case reflect.Func, reflect.Chan, reflect.UnsafePointer, reflect.Interface:
		return false
	case reflect.Struct:
		for i := 0; i < t.NumField(); i++ {
			if !t.Field(i).IsExported() && t.PkgPath() != "" && !strings.HasPrefix(t.PkgPath(), "verifsim/gen/") {
				return false // opaque type of another package
			}
			if !resettable(t.Field(i).Type, d+1) {
				return false
			}
		}
	case reflect.Array:
		return resettable(t.Elem(), d+1)
	}
	return true
}
