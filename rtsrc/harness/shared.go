package harness

import (
	"fmt"
	"hash/fnv"
	"reflect"
	"sort"
	"strings"
	"unsafe"
)

// deepHash walks a value structurally (pointers, slices, maps followed; funcs by code
// pointer; harness-owned types by identity only).
type hasher struct {
	h    uint64
	seen map[uintptr]bool
}

func (hs *hasher) add(b ...byte) {
	for _, c := range b {
		hs.h ^= uint64(c)
		hs.h *= 1099511628211
	}
}
func (hs *hasher) addU(u uint64) {
	for i := 0; i < 8; i++ {
		hs.add(byte(u >> (8 * i)))
	}
}

func harnessOwned(t reflect.Type) bool {
	for t.Kind() == reflect.Pointer {
		t = t.Elem()
	}
	// the instrumented generated packages live under verifsim/gen/: those are the code under test, not the harness
	return strings.HasPrefix(t.PkgPath(), "verifsim/") && !strings.HasPrefix(t.PkgPath(), "verifsim/gen/")
}

func (hs *hasher) walk(v reflect.Value, d int) {
	if !v.IsValid() || d > 64 {
		hs.add(0xff)
		return
	}
	hs.add(byte(v.Kind()))
	switch v.Kind() {
	case reflect.Bool:
		if v.Bool() {
			hs.add(1)
		} else {
			hs.add(0)
		}
	case reflect.Int, reflect.Int8, reflect.Int16, reflect.Int32, reflect.Int64:
		hs.addU(uint64(v.Int()))
	case reflect.Uint, reflect.Uint8, reflect.Uint16, reflect.Uint32, reflect.Uint64, reflect.Uintptr:
		hs.addU(v.Uint())
	case reflect.Float32, reflect.Float64:
		hs.add([]byte(fmt.Sprint(v.Float()))...)
	case reflect.Complex64, reflect.Complex128:
		hs.add([]byte(fmt.Sprint(v.Complex()))...)
	case reflect.String:
		hs.add([]byte(v.String())...)
		hs.addU(uint64(v.Len()))
	case reflect.Func:
		if v.IsNil() {
			hs.add(0)
		} else {
			hs.addU(uint64(v.Pointer()))
		}
	case reflect.Chan, reflect.UnsafePointer:
		hs.addU(uint64(v.Pointer()))
	case reflect.Pointer:
		if v.IsNil() {
			hs.add(0)
			return
		}
		if harnessOwned(v.Type()) {
			hs.addU(uint64(v.Pointer()))
			return
		}
		p := v.Pointer()
		if hs.seen[p] {
			hs.add(0xfe)
			return
		}
		hs.seen[p] = true
		hs.walk(v.Elem(), d+1)
	case reflect.Interface:
		if v.IsNil() {
			hs.add(0)
			return
		}
		e := v.Elem()
		hs.add([]byte(e.Type().String())...)
		if harnessOwned(e.Type()) {
			if e.Kind() == reflect.Pointer {
				hs.addU(uint64(e.Pointer()))
			}
			return
		}
		hs.walk(e, d+1)
	case reflect.Slice:
		if v.IsNil() {
			hs.add(0)
			return
		}
		hs.addU(uint64(v.Len()))
		if v.Type().Elem().Kind() == reflect.Uint8 {
			hs.add(v.Bytes()...)
			return
		}
		// the spare capacity belongs to the shared backing array too: append() writes there without changing len
		full := v
		if v.Cap() > v.Len() && v.Cap()-v.Len() <= 64 {
			full = v.Slice(0, v.Cap())
		}
		for i := 0; i < full.Len(); i++ {
			hs.walk(full.Index(i), d+1)
		}
	case reflect.Array:
		for i := 0; i < v.Len(); i++ {
			hs.walk(v.Index(i), d+1)
		}
	case reflect.Map:
		if v.IsNil() {
			hs.add(0)
			return
		}
		keys := v.MapKeys()
		ks := make([]string, len(keys))
		idx := map[string]reflect.Value{}
		for i, k := range keys {
			ks[i] = fmt.Sprint(k)
			idx[ks[i]] = k
		}
		sort.Strings(ks)
		for _, k := range ks {
			hs.add([]byte(k)...)
			hs.walk(v.MapIndex(idx[k]), d+1)
		}
	case reflect.Struct:
		if pp := v.Type().PkgPath(); pp == "sync" || pp == "sync/atomic" {
			return // the internal state of a lock or atomic is not data: acquiring a mutex is not a write to shared state
		}
		for i := 0; i < v.NumField(); i++ {
			hs.walk(v.Field(i), d+1)
		}
	}
}

func hashValue(v reflect.Value) uint64 {
	hs := &hasher{h: fnv.New64a().Sum64(), seen: map[uintptr]bool{}}
	hs.walk(v, 0)
	return hs.h
}

func (e *env) sharedParts() (names []string, vals []reflect.Value) {
	gn := make([]string, 0, len(e.p.Globals))
	for n := range e.p.Globals {
		gn = append(gn, n)
	}
	sort.Strings(gn)
	for _, n := range gn {
		names = append(names, "package variable "+n)
		vals = append(vals, reflect.ValueOf(e.p.Globals[n]).Elem())
	}
	names = append(names, "the shared API value", "the shared Client value")
	vals = append(vals, e.api.Elem(), e.cli.Elem())
	return
}

var lastParts []uint64

func (e *env) sharedHash() uint64 {
	_, vals := e.sharedParts()
	var h uint64 = 1469598103934665603
	parts := make([]uint64, len(vals))
	for i, v := range vals {
		parts[i] = hashValue(v)
		h = h*1099511628211 ^ parts[i]
	}
	prevParts, lastParts = lastParts, parts
	return h
}

var prevParts []uint64

// sharedDiff names what changed between the last two hashes.
func (e *env) sharedDiff() string {
	names, _ := e.sharedParts()
	var out []string
	for i := range names {
		if i < len(prevParts) && i < len(lastParts) && prevParts[i] != lastParts[i] {
			out = append(out, names[i])
		}
	}
	if len(out) == 0 {
		return "shared state"
	}
	return strings.Join(out, ", ")
}

// resetGlobals puts every package-level variable of the generated package back to the value it had when the
// process started - deeply: through pointers to the package's own types (in place, so the pointer identity
// stays), slices (fresh copies), maps (emptied and refilled) and struct fields, exported or not. Every execution -
// the solo references, the concurrent run, a replay in a fresh process - then starts from one and the same state:
// without this a request that leaves its bytes in a package-level scratch variable is invisible to the shared-state
// hash whenever its own solo reference run has already left the very same bytes there, and a finding that depends
// on what earlier runs left in a hand-rolled pool does not reproduce from its tape. Funcs (hooks the harness
// installs), channels, interfaces, locks/pools/atomics and opaque types of other packages are left alone.
func (p *Pkg) resetGlobals() {
	if p.globalInit == nil {
		p.globalInit = map[string]reflect.Value{}
		for n, g := range p.Globals {
			v := reflect.ValueOf(g).Elem()
			p.globalInit[n] = cloneValue(v, 0, map[uintptr]reflect.Value{})
		}
		return
	}
	for n, init := range p.globalInit {
		restoreInto(reflect.ValueOf(p.Globals[n]).Elem(), init, 0)
	}
}

func ownOrPlain(t reflect.Type) bool {
	pp := t.PkgPath()
	return pp == "" || strings.HasPrefix(pp, "verifsim/gen/")
}

func isSyncT(t reflect.Type) bool {
	pp := t.PkgPath()
	return pp == "sync" || pp == "sync/atomic"
}

func leaveAlone(t reflect.Type) bool {
	if isSyncT(t) || t.Kind() == reflect.Chan {
		return false // see restoreInto: zeroed / made afresh
	}
	switch t.Kind() {
	case reflect.Func, reflect.UnsafePointer, reflect.Interface:
		return true
	case reflect.Struct:
		return !ownOrPlain(t) // opaque type of another package: its zero/initial value is not ours to reconstruct
	}
	return false
}

// writable returns v itself, or - for a value reached through an unexported field - an equivalent settable value.
func writable(v reflect.Value) reflect.Value {
	if v.CanSet() || !v.CanAddr() {
		return v
	}
	return reflect.NewAt(v.Type(), unsafe.Pointer(v.UnsafeAddr())).Elem()
}

func readable(v reflect.Value) reflect.Value {
	if v.CanInterface() || !v.CanAddr() {
		return v
	}
	return reflect.NewAt(v.Type(), unsafe.Pointer(v.UnsafeAddr())).Elem()
}

// cloneValue makes the pristine copy (always addressable, so that unexported fields can be read back later).
func cloneValue(v reflect.Value, d int, seen map[uintptr]reflect.Value) reflect.Value {
	v = readable(v)
	out := reflect.New(v.Type()).Elem()
	if isSyncT(v.Type()) {
		// a lock, Once, WaitGroup, Pool, atomic: the state it was in before the first execution (a Once not yet fired, a
		// Pool with its New function, an atomic holding what init() stored), copied as it is
		out.Set(v)
		return out
	}
	if d > 16 || leaveAlone(v.Type()) || v.Kind() == reflect.Chan {
		out.Set(v)
		return out
	}
	switch v.Kind() {
	case reflect.Pointer:
		if v.IsNil() || leaveAlone(v.Type().Elem()) {
			out.Set(v)
			return out
		}
		if c, ok := seen[v.Pointer()]; ok {
			out.Set(c)
			return out
		}
		np := reflect.New(v.Type().Elem())
		seen[v.Pointer()] = np
		np.Elem().Set(cloneValue(v.Elem(), d+1, seen))
		out.Set(np)
	case reflect.Struct:
		for i := 0; i < v.NumField(); i++ {
			writable(out.Field(i)).Set(cloneValue(v.Field(i), d+1, seen))
		}
	case reflect.Slice:
		if v.IsNil() {
			return out
		}
		ns := reflect.MakeSlice(v.Type(), v.Len(), v.Len())
		for i := 0; i < v.Len(); i++ {
			ns.Index(i).Set(cloneValue(v.Index(i), d+1, seen))
		}
		out.Set(ns)
	case reflect.Array:
		for i := 0; i < v.Len(); i++ {
			out.Index(i).Set(cloneValue(v.Index(i), d+1, seen))
		}
	case reflect.Map:
		if v.IsNil() {
			return out
		}
		nm := reflect.MakeMapWithSize(v.Type(), v.Len())
		it := v.MapRange()
		for it.Next() {
			nm.SetMapIndex(it.Key(), cloneValue(it.Value(), d+1, seen))
		}
		out.Set(nm)
	default:
		out.Set(v)
	}
	return out
}

// restoreInto makes live equal to a fresh copy of init, in place where identity matters.
func restoreInto(live, init reflect.Value, d int) {
	live, init = writable(live), readable(init)
	if !live.CanSet() {
		return
	}
	if isSyncT(live.Type()) {
		// no task is alive between executions: a Once that has fired, a mutex a dead run left locked, a WaitGroup
		// counter go back to what they were before the first execution (a helper goroutine started "once" is started
		// again by the next execution)
		live.Set(init)
		return
	}
	if d > 16 || leaveAlone(live.Type()) {
		return // never touched: a hook, an opaque value
	}
	switch live.Kind() {
	case reflect.Chan:
		// a fresh channel of the same capacity: goroutines that a dead run left blocked on the old one stay there
		if init.IsNil() || live.Type().ChanDir() != reflect.BothDir {
			live.Set(init)
		} else {
			live.Set(reflect.MakeChan(live.Type(), init.Cap()))
		}
	case reflect.Pointer:
		switch {
		case init.IsNil():
			live.Set(init)
		case leaveAlone(live.Type().Elem()):
			// the pointer itself is ours, what it points to is not
			if live.IsNil() {
				live.Set(init)
			}
		case live.IsNil():
			live.Set(cloneValue(init, d, map[uintptr]reflect.Value{}))
		default:
			restoreInto(live.Elem(), init.Elem(), d+1) // same object, pristine content
		}
	case reflect.Struct:
		for i := 0; i < live.NumField(); i++ {
			restoreInto(live.Field(i), init.Field(i), d+1)
		}
	case reflect.Array:
		for i := 0; i < live.Len(); i++ {
			restoreInto(live.Index(i), init.Index(i), d+1)
		}
	case reflect.Slice, reflect.Map:
		live.Set(cloneValue(init, d, map[uintptr]reflect.Value{}))
	default:
		live.Set(init)
	}
}
