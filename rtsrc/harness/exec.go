package harness

import (
	"bufio"
	"bytes"
	"context"
	"fmt"
	"io"
	"math/rand/v2"
	"net/http"
	"net/http/httptest"
	"reflect"
	"runtime/debug"
	"strings"

	"verifsim/sim"
	"verifsim/tape"
	"verifsim/values"
)

const BaseURL = "http://sim.local"

type ReqPlan struct {
	Tag string `json:"tag"`
	// ValueTag, when set, replaces Tag in the generated values: a "twin" request carries exactly the same
	// parameter values (same raw query, same body) as another request of the run, which is what per-value
	// caches need in order to be hit.
	ValueTag    string     `json:"value_tag,omitempty"`
	Kind        int        `json:"kind"` // 0 = typed call through the generated client, 1 = raw bytes on a connection
	Op          int        `json:"op"`
	ValueSeed   uint64     `json:"value_seed"`
	Level       int        `json:"level"`
	SetAll      bool       `json:"set_all,omitempty"`
	NoEmpty     bool       `json:"no_empty,omitempty"`
	RespIdx     int        `json:"resp_idx"`
	RespSeed    uint64     `json:"resp_seed"`
	DefaultCode int        `json:"default_code,omitempty"`
	AuthReject  bool       `json:"auth_reject,omitempty"`
	Faults      sim.Faults `json:"faults"`
	// RespEmptyArrays: the planned response may carry empty/nil array-typed headers (not expressible on the wire,
	// hence never used where the response is compared with what the client reconstructs).
	RespEmptyArrays bool `json:"resp_empty_arrays,omitempty"`
	// NotJudged: the request only exists to disturb the others (its own outcome is not checked).
	NotJudged bool `json:"not_judged,omitempty"`
	// InjectCred > 0: the transport adds the credential of the (InjectCred-1)-th security scheme of the spec to
	// the outgoing request (users commonly add API keys in their HTTPClient); the generated client has no
	// parameter for apiKey-in-query schemes, so this is the only way such a scheme ever authenticates.
	InjectCred int `json:"inject_cred,omitempty"`
	// Parent: this request is not sent by a caller task of its own; the harness handler of request Parent sends
	// it in-process (LocalClient style) while it is itself being served, passing on its request context -
	// the "handler fans out to another operation of the same API" pattern.
	Parent string `json:"parent,omitempty"`
	// Local: the request does not cross the simulated wire; the client's *http.Request is handed to
	// API.ServeHTTP with an httptest.ResponseRecorder, exactly as the generated LocalClient() does.
	Local bool `json:"local,omitempty"`
	// After: the caller task of this request starts only when the caller of request After has returned - a history
	// inside one execution (what an earlier request, typically one that failed half-way, left behind in shared state
	// meets the concurrent batch that follows).
	After string `json:"after,omitempty"`
	// RespBadFloats: floats of the planned response body are NaN / infinite every third time (the JSON body cannot be
	// encoded: the error path of the response writer runs).
	RespBadFloats bool     `json:"resp_bad_floats,omitempty"`
	Raw           []byte   `json:"raw,omitempty"`
	RawDesc       []string `json:"raw_desc,omitempty"`
}

type RunPlan struct {
	Pkg            string    `json:"pkg"`
	Strategy       int       `json:"strategy"`
	SitePct        int       `json:"site_pct"`
	Salt           uint64    `json:"salt"`
	Middlewares    int       `json:"middlewares"`
	HashEvery      int       `json:"hash_every"`
	NilAuth        bool      `json:"nil_auth,omitempty"`         // leave the security hooks of the API nil (legal configuration)
	NilCORS        bool      `json:"nil_cors,omitempty"`         // leave API.CORSHandler nil
	NilSpec        bool      `json:"nil_spec,omitempty"`         // leave API.SpecFileHandler nil
	CustomNotFound bool      `json:"custom_not_found,omitempty"` // install a NotFoundHandler
	Reqs           []ReqPlan `json:"reqs"`
	// Prelude: tag of the request that is served to completion before the callers of the others start ("" = none)
	Prelude string `json:"prelude,omitempty"`
}

type ReqObs struct {
	Tag          string
	Op           string
	Sent         string
	SentVal      reflect.Value
	WireReq      []byte
	Deliveries   []*sim.Delivery
	ClientType   string
	ClientRet    string
	ClientErr    string
	Planned      string
	PlannedType  string
	PlannedCode  int
	CallerPanic  string
	RawResp      []byte
	Intermediary int
}

type RunResult struct {
	Obs          map[string]*ReqObs
	Order        []string
	Err          error
	Blocked      []string
	Leaked       int // goroutines left blocked for ever in a real operation of the generated code
	Steps        int
	Switches     int
	SwitchHash   uint64
	SharedWrites []string
	Races        []sim.Race
	Stray        []string // events not attributable to a request task
	Probes       map[string]int
	HarnessPanic string
	Pairs        int
}

type tagKey struct{}
type authKey struct{}

type env struct {
	p          *Pkg
	plan       *RunPlan
	s          *sim.Sched
	obs        map[string]*ReqObs
	plans      map[string]*ReqPlan
	api        reflect.Value // *API
	cli        reflect.Value // *Client
	res        *RunResult
	nestedDone map[string]bool
	callerDone map[string]bool
}

// Transport is the HTTPClient seam of the generated client.
type Transport struct{ e *env }

func (e *env) delivery() *sim.Delivery {
	for t := e.s.Cur; t != nil; t = t.Parent { // a goroutine started by generated code works for its parent's request
		if d, ok := taskData[t].(*sim.Delivery); ok {
			return d
		}
	}
	return nil
}

var taskData = map[*sim.Task]any{}

func (e *env) trace(ev string) {
	if d := e.delivery(); d != nil {
		d.Trace = append(d.Trace, ev)
		return
	}
	if t := e.s.Cur; t != nil {
		if o := e.obs[t.Tag]; o != nil && len(o.Deliveries) == 0 {
			// client-side event (e.g. LogError from the generated client)
			e.res.Stray = append(e.res.Stray, t.Tag+": "+ev)
			return
		}
	}
	e.res.Stray = append(e.res.Stray, ev)
}

func (rp *ReqPlan) vtag() string {
	if rp.ValueTag != "" {
		return rp.ValueTag
	}
	return rp.Tag
}

func frng(seed uint64, salt uint64) *rand.Rand { return rand.New(rand.NewPCG(seed, salt)) }

func (e *env) serveConn(tag string, wire []byte, f sim.Faults, idx int) *sim.Delivery {
	d := &sim.Delivery{Tag: tag}
	rng := frng(f.Seed, uint64(100+idx))
	c2s := &sim.Conn{S: e.s, Data: wire, Limit: -1, ErrWithData: f.ErrWithData}
	c2s.Cuts = sim.CutsFor(f.ReqCutMode, len(wire), rng)
	if f.ReqReset && len(wire) > 0 {
		hdrEnd := bytes.Index(wire, []byte("\r\n\r\n"))
		if f.ReqResetInBody && hdrEnd >= 0 && hdrEnd+4 < len(wire) {
			c2s.Limit = hdrEnd + 4 + rng.IntN(len(wire)-hdrEnd-4)
			if rng.IntN(5) == 0 {
				c2s.Limit = hdrEnd + 4 // the head arrives, not a single body byte does
			}
		} else {
			c2s.Limit = rng.IntN(len(wire))
		}
	}
	t := e.s.Go(fmt.Sprintf("srv%d:%s", idx, tag), tag, func() {
		sim.Serve(e.s, e.api.Interface().(http.Handler), c2s, d, f, rng)
		if c2s.Segments > 1 {
			e.s.Probes["request_delivered_in_segments"]++
		}
		if c2s.ResetHit {
			e.s.Probes["request_reset_hit"]++
		}
		if d.WriteErrs > 0 {
			e.s.Probes["response_writer_failed"]++
		}
	})
	taskData[t] = d
	return d
}

func (tr *Transport) Do(req *http.Request) (*http.Response, error) {
	e := tr.e
	tag, _ := req.Context().Value(tagKey{}).(string)
	if tag == "" && e.s.Cur != nil {
		tag = e.s.Cur.Tag
	}
	o := e.obs[tag]
	rp := e.plans[tag]
	if o == nil || rp == nil {
		return nil, fmt.Errorf("harness: request with unknown tag %q", tag)
	}
	e.s.Yield("transport.Do")
	if err := req.Context().Err(); err != nil {
		return nil, err
	}
	if rp.InjectCred > 0 && len(e.p.Schemes) > 0 {
		sc := e.p.Schemes[(rp.InjectCred-1)%len(e.p.Schemes)]
		switch {
		case sc.In == "query":
			q := req.URL.Query()
			q.Set(sc.Name, "cred-"+tag)
			req.URL.RawQuery = q.Encode()
		case sc.In == "header":
			req.Header.Set(sc.Name, "cred-"+tag)
		case sc.Bearer:
			req.Header.Set("Authorization", "Bearer cred-"+tag)
		}
		e.s.Probes["credential_injected_by_transport"]++
	}
	if rp.Local {
		return e.localExchange(tag, req, o), nil
	}
	req.Header.Set("X-Verif-Tag", tag)
	var buf bytes.Buffer
	if err := req.Write(&buf); err != nil {
		return nil, fmt.Errorf("write request: %w", err)
	}
	wire := buf.Bytes()
	o.WireReq = wire
	resp, err := e.exchange(tag, wire, rp, o, req)
	return resp, err
}

// localExchange is the in-process transport of the generated LocalClient(): no serialisation, the handler runs
// on the caller's task, the response is what an httptest.ResponseRecorder collected.
func (e *env) localExchange(tag string, req *http.Request, o *ReqObs) *http.Response {
	d := &sim.Delivery{Tag: tag, Entered: true}
	o.Deliveries = append(o.Deliveries, d)
	t := e.s.Cur
	prev, had := taskData[t]
	taskData[t] = d
	req.Header.Set("X-Verif-Tag", tag)
	rec := httptest.NewRecorder()
	func() {
		defer func() {
			if r := recover(); r != nil {
				d.Panic = fmt.Sprint(r)
				d.PanicStack = string(debug.Stack())
			}
		}()
		e.api.Interface().(http.Handler).ServeHTTP(rec, req)
	}()
	if had {
		taskData[t] = prev
	} else {
		delete(taskData, t)
	}
	d.Status, d.Finished, d.HeaderWrites = rec.Code, true, 1
	e.s.Probes["local_in_process_exchange"]++
	return rec.Result()
}

// exchange sends wire bytes to the server shell and returns the parsed response.
func (e *env) exchange(tag string, wire []byte, rp *ReqPlan, o *ReqObs, req *http.Request) (*http.Response, error) {
	f := rp.Faults
	d := e.serveConn(tag, wire, f, len(o.Deliveries))
	o.Deliveries = append(o.Deliveries, d)
	if f.Dup {
		d2 := e.serveConn(tag, append([]byte(nil), wire...), f, len(o.Deliveries))
		o.Deliveries = append(o.Deliveries, d2)
		e.s.Probes["duplicate_delivery"]++
	}
	e.s.Block("await response", func() bool { return d.Finished })
	if d.ReadErr != "" || d.RespWire == nil {
		return nil, fmt.Errorf("transport: server closed the connection without a response: %w", io.ErrUnexpectedEOF)
	}
	respWire := d.RespWire
	if f.Intermediary > 0 {
		c := sim.CannedResponses[f.Intermediary%len(sim.CannedResponses)]
		if c.Status == 0 {
			c = sim.CannedResponses[1]
		}
		var b bytes.Buffer
		fmt.Fprintf(&b, "HTTP/1.1 %d %s\r\n", c.Status, http.StatusText(c.Status))
		if c.CT != "" {
			fmt.Fprintf(&b, "Content-Type: %s\r\n", c.CT)
		}
		fmt.Fprintf(&b, "Content-Length: %d\r\nVia: 1.1 sim-intermediary\r\n\r\n%s", len(c.Body), c.Body)
		respWire = b.Bytes()
		o.Intermediary = c.Status
		e.s.Probes["intermediary_substitution"]++
	}
	rng := frng(f.Seed, 7)
	s2c := &sim.Conn{S: e.s, Data: respWire, Limit: -1, ErrWithData: f.ErrWithData}
	s2c.Cuts = sim.CutsFor(f.RespCutMode, len(respWire), rng)
	if f.RespTruncate && len(respWire) > 0 {
		// a quarter anywhere, a quarter exactly after the head (no body byte arrives), half inside the body
		he := bytes.Index(respWire, []byte("\r\n\r\n"))
		switch k := rng.IntN(4); {
		case he < 0 || k == 0 || he+4 >= len(respWire):
			s2c.Limit = rng.IntN(len(respWire))
		case k == 1:
			s2c.Limit = he + 4
		default:
			s2c.Limit = he + 4 + rng.IntN(len(respWire)-he-4)
		}
		e.s.Probes["response_truncated"]++
	}
	if req == nil {
		// raw caller: hand back the bytes that would arrive
		data, _ := io.ReadAll(s2c)
		o.RawResp = data
		return nil, nil
	}
	resp, err := http.ReadResponse(bufio.NewReader(s2c), req)
	if err != nil {
		if s2c.ResetHit {
			e.s.Probes["response_truncation_hit_in_head"]++
		}
		return nil, fmt.Errorf("transport: read response: %w", err)
	}
	resp.Body = &probeBody{ReadCloser: resp.Body, c: s2c, e: e}
	return resp, nil
}

func (e *env) gen(rp *ReqPlan, salt uint64) *values.Gen {
	return &values.Gen{R: frng(rp.ValueSeed, salt), Tag: rp.Tag, Level: rp.Level, OneOf: e.p.OneOf, Discr: e.p.Discr, SetAll: rp.SetAll, NoEmptyStrings: rp.NoEmpty}
}

// BuildParams builds the typed parameters of a planned request (deterministic in the plan).
func BuildParams(p *Pkg, rp *ReqPlan) (reflect.Value, []string) {
	g := &values.Gen{R: frng(rp.ValueSeed, 1), Tag: rp.vtag(), Level: rp.Level, OneOf: p.OneOf, Discr: p.Discr, SetAll: rp.SetAll, NoEmptyStrings: rp.NoEmpty}
	v := g.Params(p.Ops[rp.Op].ParamsType)
	return v, g.Unsupported
}

// BuildResponse builds the planned response value of a request.
func BuildResponse(p *Pkg, rp *ReqPlan, failRaw bool) (reflect.Value, reflect.Type) {
	op := p.Ops[rp.Op]
	if len(op.RespTypes) == 0 {
		panic("harness: operation without response types: " + op.Name)
	}
	rt := op.RespTypes[rp.RespIdx%len(op.RespTypes)]
	g := &values.Gen{R: frng(rp.RespSeed, 2), Tag: rp.Tag, Level: rp.Level, OneOf: p.OneOf, Discr: p.Discr, MaxRaw: 96 << 10, EmptySlices: rp.RespEmptyArrays}
	v := g.Value(rt, values.LocHeader)
	if f := v.FieldByName("Code"); f.IsValid() && f.Kind() == reflect.Int {
		f.SetInt(int64(rp.DefaultCode))
	}
	// bodies use the body alphabet
	if f := v.FieldByName("Body"); f.IsValid() && f.CanSet() {
		gb := &values.Gen{R: frng(rp.RespSeed, 3), Tag: rp.Tag, Level: rp.Level, OneOf: p.OneOf, Discr: p.Discr, MaxRaw: 96 << 10, BadFloats: rp.RespBadFloats}
		f.Set(gb.Value(f.Type(), values.LocBody))
		if failRaw && f.Kind() == reflect.Interface && !f.IsNil() {
			if tr, ok := f.Interface().(*values.TagReader); ok && len(tr.Data) > 0 {
				tr.FailAfter = frng(rp.RespSeed, 4).IntN(len(tr.Data))
				tr.OnFail = func() { RawSourceFailures++ }
			}
		}
	}
	return v, rt
}

func (e *env) handlerFor(op *Op) reflect.Value {
	return reflect.MakeFunc(op.FuncType, func(args []reflect.Value) []reflect.Value {
		d := e.delivery()
		if d == nil {
			panic("harness: handler invoked outside a server task")
		}
		e.s.Yield("handler enter")
		d.Handler += op.Name
		if hr := args[1].MethodByName("HTTP"); hr.IsValid() {
			if r, ok := hr.Call(nil)[0].Interface().(*http.Request); ok && r != nil {
				if at, ok := r.Context().Value(authKey{}).(string); ok {
					for _, ev := range d.Trace {
						if strings.HasPrefix(ev, "auth ") {
							d.CtxTag = at // only meaningful when an authenticator ran for THIS delivery (a nested request inherits its parent's context)
							break
						}
					}
				}
				if got := r.Header.Get("X-Verif-Tag"); got != d.Tag {
					d.Trace = append(d.Trace, "handler saw request of tag "+got)
				}
			}
		}
		func() {
			defer func() {
				if r := recover(); r != nil {
					d.ParsePanic = fmt.Sprint(r)
					d.PanicStack = string(debug.Stack())
				}
			}()
			out := args[1].MethodByName("Parse").Call(nil)
			if len(out) > 1 && !out[1].IsNil() {
				d.ParseErr = out[1].Interface().(error).Error()
				return
			}
			pv := reflect.New(out[0].Type()).Elem()
			pv.Set(out[0])
			values.DrainReaders(pv)
			d.Params = values.Canon(pv)
			d.ParamsVal = pv
		}()
		for _, child := range e.plan.Reqs {
			if po := e.obs[d.Tag]; child.Parent == d.Tag && child.Parent != "" && !e.nestedDone[child.Tag] && po != nil && len(po.Deliveries) > 0 && po.Deliveries[0] == d {
				e.nestedDone[child.Tag] = true
				c := child
				e.s.Probes["nested_in_process_call"]++
				d.Trace = append(d.Trace, "handler sends nested request "+c.Tag)
				hctx, _ := args[0].Interface().(context.Context)
				if hr := args[1].MethodByName("HTTP"); hr.IsValid() {
					if r, ok := hr.Call(nil)[0].Interface().(*http.Request); ok && r != nil {
						hctx = r.Context() // the request's own context, with everything the generated code put into it
					}
				}
				// values are inherited, cancellation is not (the parent's stream faults are the parent's own)
				e.callerCtx(e.plans[c.Tag], context.WithoutCancel(hctx))
			}
		}
		rp := e.plans[d.Tag]
		if rp == nil || rp.Kind != 0 || e.p.Ops[rp.Op] != op {
			// a raw request, or a request routed to another operation than planned: answer with the first response kind
			rp = &ReqPlan{Tag: d.Tag, Op: e.opIndex(op), RespSeed: 1, DefaultCode: 500}
		}
		val, rt := BuildResponse(e.p, rp, rp.Faults.RawRespFail)
		if o := e.obs[d.Tag]; o != nil && o.Planned == "" {
			o.Planned, o.PlannedType = values.Canon(val), rt.Name()
			if f := val.FieldByName("Code"); f.IsValid() && f.Kind() == reflect.Int {
				o.PlannedCode = int(f.Int())
			}
		}
		e.s.Yield("handler leave")
		return []reflect.Value{val.Convert(op.RespIface)}
	})
}

func (e *env) opIndex(op *Op) int {
	for i, o := range e.p.Ops {
		if o == op {
			return i
		}
	}
	return 0
}

func (e *env) setup() (restore func()) {
	p := e.p
	p.resetGlobals()
	api := reflect.New(p.APIType)
	for _, op := range p.Ops {
		api.Elem().Field(op.Field).Set(e.handlerFor(op))
	}
	for _, fi := range p.SecFields {
		if e.plan.NilAuth {
			break
		}
		ft := p.APIType.Field(fi)
		name := ft.Name
		api.Elem().Field(fi).Set(reflect.MakeFunc(ft.Type, func(args []reflect.Value) []reflect.Value {
			r := args[0].Interface().(*http.Request)
			e.s.Yield("auth")
			e.trace(fmt.Sprintf("auth %s token=%q", name, args[1].String()))
			d := e.delivery()
			accept := true
			tag := ""
			if d != nil {
				tag = d.Tag
				if rp := e.plans[d.Tag]; rp != nil && rp.AuthReject {
					accept = false
				}
			}
			if !accept {
				e.s.Probes["auth_rejected"]++
				return []reflect.Value{reflect.Zero(args[0].Type()), reflect.ValueOf(false)}
			}
			r2 := r.WithContext(context.WithValue(r.Context(), authKey{}, tag+"/"+name))
			return []reflect.Value{reflect.ValueOf(r2), reflect.ValueOf(true)}
		}))
	}
	if p.MwField >= 0 && e.plan.Middlewares > 0 {
		// spare capacity, as after a few append() calls in user code: an append on the shared slice must still copy
		mws := reflect.MakeSlice(p.APIType.Field(p.MwField).Type, 0, e.plan.Middlewares+2)
		var schemaPath func(*http.Request) (string, bool)
		if f, ok := p.Funcs["SchemaPath"].(func(*http.Request) (string, bool)); ok {
			schemaPath = f
		}
		for i := 0; i < e.plan.Middlewares; i++ {
			i := i
			mw := func(next http.Handler) http.Handler {
				return http.HandlerFunc(func(w http.ResponseWriter, r *http.Request) {
					sp := ""
					if schemaPath != nil {
						sp, _ = schemaPath(r)
					}
					e.s.Yield("mw")
					e.trace(fmt.Sprintf("mw%d enter %s", i, sp))
					next.ServeHTTP(w, r)
					e.trace(fmt.Sprintf("mw%d leave", i))
				})
			}
			mws = reflect.Append(mws, reflect.ValueOf(mw))
		}
		api.Elem().Field(p.MwField).Set(mws)
	}
	if p.NotFoundField >= 0 && e.plan.CustomNotFound {
		var h http.Handler = http.HandlerFunc(func(w http.ResponseWriter, r *http.Request) {
			e.trace("custom not-found " + r.URL.Path)
			w.Header().Set("X-Not-Found", "1")
			w.WriteHeader(404)
			w.Write([]byte("nope"))
		})
		api.Elem().Field(p.NotFoundField).Set(reflect.ValueOf(&h).Elem())
	}
	if p.CORSField >= 0 && !e.plan.NilCORS {
		ft := p.APIType.Field(p.CORSField).Type
		if ft.Kind() == reflect.Func && ft.NumOut() == 1 && ft.Out(0) == handlerType {
			api.Elem().Field(p.CORSField).Set(reflect.MakeFunc(ft, func(args []reflect.Value) []reflect.Value {
				desc := fmt.Sprint(args[0].Interface(), args[1].Interface())
				var h http.Handler = http.HandlerFunc(func(w http.ResponseWriter, r *http.Request) {
					e.trace("cors " + desc)
					e.s.Probes["cors_path"]++
					w.WriteHeader(204)
				})
				return []reflect.Value{reflect.ValueOf(&h).Elem()}
			}))
		}
	}
	if p.SpecField >= 0 && !e.plan.NilSpec {
		if f, ok := p.Funcs["SpecFileHandler"].(func() http.Handler); ok {
			h := f()
			api.Elem().Field(p.SpecField).Set(reflect.ValueOf(&h).Elem())
		}
	}
	e.api = api
	nc := reflect.ValueOf(p.Funcs["NewClient"])
	tr := &Transport{e: e}
	e.cli = nc.Call([]reflect.Value{reflect.ValueOf(p.URL()), reflect.ValueOf(tr)})[0]
	var oldLog func(error)
	if lp, ok := p.Globals["LogError"].(*func(error)); ok {
		oldLog = *lp
		*lp = func(err error) {
			msg := "<nil>"
			if err != nil {
				msg = err.Error()
			}
			e.s.Probes["LogError_called"]++
			e.trace("logerror " + msg)
		}
		return func() { *lp = oldLog }
	}
	return func() {}
}

func (e *env) caller(rp *ReqPlan) { e.callerCtx(rp, context.Background()) }

func (e *env) callerCtx(rp *ReqPlan, base context.Context) {
	o := e.obs[rp.Tag]
	defer func() {
		if r := recover(); r != nil {
			o.CallerPanic = fmt.Sprint(r) + "\n" + string(debug.Stack())
		}
	}()
	if rp.Kind == 1 {
		o.WireReq = rp.Raw
		e.s.Yield("raw send")
		e.exchange(rp.Tag, rp.Raw, rp, o, nil)
		return
	}
	op := e.p.Ops[rp.Op]
	o.Op = op.Name
	params, _ := BuildParams(e.p, rp)
	o.Sent = values.Canon(params)
	o.SentVal = params
	ctx, cancel := context.WithCancel(context.WithValue(base, tagKey{}, rp.Tag))
	defer cancel()
	if rp.Faults.CancelBefore {
		cancel()
		e.s.Probes["context_cancelled_before_send"]++
	}
	out := e.cli.MethodByName(op.Name).Call([]reflect.Value{reflect.ValueOf(ctx), params})
	if !out[1].IsNil() {
		o.ClientErr = out[1].Interface().(error).Error()
	}
	if !out[0].IsNil() {
		rv := out[0].Elem()
		cp := reflect.New(rv.Type()).Elem()
		cp.Set(rv)
		values.DrainReaders(cp)
		o.ClientType = rv.Type().Name()
		o.ClientRet = values.Canon(cp)
	}
}

// Exec runs a plan under the schedule drawn from t.
func Exec(p *Pkg, plan *RunPlan, t *tape.Tape, logOn bool) *RunResult {
	res := &RunResult{Obs: map[string]*ReqObs{}}
	s := sim.New(t)
	s.Strategy, s.SitePct, s.Salt, s.LogOn = plan.Strategy, plan.SitePct, plan.Salt, logOn
	if s.SitePct == 0 {
		s.SitePct = 100
	}
	s.SameFunc = func(a, b int) bool {
		return a>>20 == b>>20 && p.YieldFunc[a&0xfffff] != "" && p.YieldFunc[a&0xfffff] == p.YieldFunc[b&0xfffff]
	}
	e := &env{p: p, plan: plan, s: s, obs: res.Obs, plans: map[string]*ReqPlan{}, res: res, nestedDone: map[string]bool{}, callerDone: map[string]bool{}}
	taskData = map[*sim.Task]any{}
	restore := e.setup()
	defer restore()
	s.Install()
	defer sim.Uninstall()
	for i := range plan.Reqs {
		rp := &plan.Reqs[i]
		e.plans[rp.Tag] = rp
		res.Obs[rp.Tag] = &ReqObs{Tag: rp.Tag}
		res.Order = append(res.Order, rp.Tag)
	}
	for i := range plan.Reqs {
		rp := &plan.Reqs[i]
		if rp.Parent != "" {
			continue // sent by its parent's handler
		}
		s.Go("cli:"+rp.Tag, rp.Tag, func() {
			defer func() { e.callerDone[rp.Tag] = true }()
			if rp.After != "" {
				s.Probes["caller_started_after_an_earlier_request_returned"]++
				s.Block("after "+rp.After, func() bool { return e.callerDone[rp.After] })
			}
			e.caller(rp)
		})
	}
	// shared-state discipline
	trackShared := !p.UnsimSync
	s.RealBlock = p.NoRace // goroutines / channel operations of its own
	if trackShared && !p.NoRace {
		s.EnableRace(func(site int) string { return siteDesc(p, site) })
		s.Install() // again: the access hooks are only installed with the detector on
	}
	var lastHash uint64
	var since []string
	if trackShared {
		lastHash = e.sharedHash()
		every := plan.HashEvery
		if every <= 0 {
			every = 1 << 30
		}
		if p.UsesSync {
			every = 1 // lock-protected writes are exempt: attribute every change to exactly one step
		}
		s.AfterStep = func(t *sim.Task) {
			if len(since) < 8 {
				since = append(since, t.Name)
			}
			locked := t.Locks > 0 || t.LockTouched
			t.LockTouched = false
			if s.Steps%every != 0 {
				return
			}
			h := e.sharedHash()
			if h != lastHash && locked && every == 1 {
				// a write made while holding a simulator-tracked lock: synchronised, allowed
				s.Probes["shared_write_under_lock"]++
				lastHash = h
				since = since[:0]
				return
			}
			if h != lastHash {
				res.SharedWrites = append(res.SharedWrites, fmt.Sprintf("%s changed at step %d by one of %v: %s", e.sharedDiff(), s.Steps, since, siteDesc(p, t.Site)))
				lastHash = h
			}
			since = since[:0]
		}
	}
	func() {
		defer func() {
			if r := recover(); r != nil {
				res.HarnessPanic = fmt.Sprint(r) + "\n" + string(debug.Stack())
			}
		}()
		res.Err = s.Run()
	}()
	if trackShared && res.Err == nil {
		if h := e.sharedHash(); h != lastHash {
			res.SharedWrites = append(res.SharedWrites, fmt.Sprintf("%s changed by the end of the run (tasks %v)", e.sharedDiff(), since))
		}
	}
	res.Races = s.Races()
	if n := s.RaceAccesses(); n > 0 {
		s.Probes["accesses_seen_by_race_detector"] += n
	}
	for _, tk := range s.Tasks {
		if tk.Panic != nil && res.HarnessPanic == "" {
			res.HarnessPanic = fmt.Sprintf("task %s panicked outside the shell: %v", tk.Name, tk.Panic)
		}
	}
	if res.Err != nil {
		res.Blocked = s.Blocked()
		res.Leaked = s.LeakedBlocked()
		LeakedTotal += res.Leaked
	}
	if RawSourceFailures > 0 {
		s.Probes["raw_response_source_failed_mid_copy"] += RawSourceFailures
		RawSourceFailures = 0
	}
	res.Steps, res.Switches, res.SwitchHash, res.Probes, res.Pairs = s.Steps, s.Switches, s.SwitchHash, s.Probes, len(s.Pairs)
	PairSink(s.Pairs)
	return res
}

// probeBody counts what actually happened to a response stream by the time the caller is done with it.
type probeBody struct {
	io.ReadCloser
	c    *sim.Conn
	e    *env
	done bool
}

func (b *probeBody) Close() error {
	if !b.done {
		b.done = true
		if b.c.Segments > 1 {
			b.e.s.Probes["response_delivered_in_segments"]++
		}
		if b.c.ResetHit {
			b.e.s.Probes["response_truncation_hit_in_body"]++
		}
	}
	return b.ReadCloser.Close()
}

// LeakedTotal: goroutines of this process that are blocked for ever (see RunResult.Leaked).
var LeakedTotal int

// RawSourceFailures counts handler-supplied raw response bodies that really failed mid-copy.
var RawSourceFailures int

// PairSink receives the overlap pairs of every run (set by the worker for coverage accounting).
var PairSink = func(map[uint64]struct{}) {}

func siteDesc(p *Pkg, site int) string {
	if site == 0 {
		return "outside generated code"
	}
	return "last yield in " + p.YieldFunc[site&0xfffff]
}

func hasPrefixAny(s string, ps ...string) bool {
	for _, p := range ps {
		if strings.HasPrefix(s, p) {
			return true
		}
	}
	return false
}
