package main

import (
	"bufio"
	"bytes"
	"context"
	"fmt"
	"net/http"
	"net/url"
	"reflect"
	"regexp"
	"sort"
	"strings"

	"github.com/getkin/kin-openapi/openapi3filter"

	"verifsim/harness"
	"verifsim/sim"
	"verifsim/tape"
	"verifsim/values"
)

func baseVerdict(p *harness.Pkg, plan *harness.RunPlan, res *harness.RunResult) *verdict {
	v := &verdict{pkg: p, plan: plan, requests: len(plan.Reqs), steps: res.Steps, probes: res.Probes, counters: map[string]int{}, logParts: summarise(res)}
	if res.HarnessPanic != "" {
		v.harnessErr = res.HarnessPanic
	}
	v.counters["context_switches"] = res.Switches
	return v
}

func (v *verdict) violate(key, observed, expected string) {
	if !v.violated {
		v.violated, v.key, v.observed, v.expected = true, key, observed, expected
	}
}

func countFaults(v *verdict, plan *harness.RunPlan) {
	for _, rp := range plan.Reqs {
		f := rp.Faults
		inc := func(c bool, k string) {
			if c {
				v.counters["fault_"+k]++
			}
		}
		inc(f.ReqCutMode != 0, "request_segmentation")
		inc(f.RespCutMode != 0, "response_segmentation")
		inc(f.ReqReset, "request_reset")
		inc(f.RespTruncate, "response_truncation")
		inc(f.Dup, "duplicate_delivery")
		inc(f.Intermediary != 0, "intermediary_substitution")
		inc(f.WriterFail, "response_writer_failure")
		inc(f.CancelBefore, "cancel_before_send")
		inc(f.SrvCancelStep != 0, "server_ctx_cancel")
		inc(f.RawRespFail, "raw_response_source_failure")
		inc(f.ErrWithData, "reader_returns_data_and_error")
		inc(f.SrvCancelAtStart, "server_ctx_cancelled_at_start")
	}
}

func frameOf(p *harness.Pkg, stack string) string { return sim.PanicFrame(stack, p.ImportPath) }

// ---- C09 ---------------------------------------------------------------------------------------------------

func (w *worker) runC09(p *harness.Pkg, t *tape.Tape, logOn bool) *verdict {
	ops := usableOps(p)
	plan := drawBase(t, p)
	config := t.Choose(4, "config") // 0 fault-free single caller, 1/2 data-preserving faults + concurrency, 3 in-process LocalClient-style transport
	n := 1
	if config != 0 {
		n = 1 + t.Choose(4, "callers")
	} else {
		plan.Strategy, plan.SitePct = 0, 100
	}
	if len(ops) == 0 {
		v := &verdict{pkg: p, plan: plan, counters: map[string]int{"runs_on_package_without_usable_ops": 1}, probes: map[string]int{}}
		return v
	}
	validate := p.Swagger != nil && (p.Class == "G" || p.Class == "K")
	for i := 0; i < n; i++ {
		rp := drawReq(t, p, ops, i)
		rp.NoEmpty = validate && t.Choose(2, "wire-validity-domain") == 0
		if rp.InjectCred > 0 && p.Schemes[(rp.InjectCred-1)%len(p.Schemes)].In != "query" {
			rp.InjectCred = 0 // header credentials are typed header parameters of the request: the agreement oracle owns them
		}
		if config == 1 || config == 2 {
			rp.Faults.ReqCutMode = t.Choose(5, "req-cut")
			rp.Faults.RespCutMode = t.Choose(5, "resp-cut")
			rp.Faults.Dup = t.Flip(1, 6, "dup")
		}
		if config == 3 {
			rp.Local, rp.NoEmpty = true, false
		}
		plan.Reqs = append(plan.Reqs, rp)
	}
	res := harness.Exec(p, plan, t, logOn)
	v := baseVerdict(p, plan, res)
	countFaults(v, plan)
	if res.Err != nil && v.harnessErr == "" {
		v.harnessErr = fmt.Sprintf("%v: %v", res.Err, res.Blocked)
	}
	v.counters[fmt.Sprintf("config_%d_runs", config)]++
	v.nontrivial = true
	var dk []string
	for i := range plan.Reqs {
		rp := &plan.Reqs[i]
		o := res.Obs[rp.Tag]
		dk = append(dk, o.Op, fmt.Sprint(hash64(o.Sent)), describeFaults(rp.Faults))
		op := p.Ops[rp.Op]
		w.judgeC09(v, p, op, rp, o, validate)
	}
	dk = append(dk, fmt.Sprint(res.SwitchHash))
	v.distinctKey = strings.Join(dk, "|")
	v.trace = traceOf(p, plan, res)
	v.sample = map[string]any{"package": p.Name, "config": config, "trace": v.trace}
	return v
}

func paramName(parseErr string) string {
	// "query parameter 'page': parse int32: ..." -> query
	if i := strings.Index(parseErr, " parameter '"); i > 0 {
		return parseErr[:i]
	}
	if strings.Contains(parseErr, "body") {
		return "body"
	}
	return "other"
}

func errClass(msg string) string {
	switch {
	case strings.Contains(msg, "marshal"):
		return "marshal-error"
	case strings.Contains(msg, "new request"):
		return "new-request-error"
	case strings.Contains(msg, "write request"):
		return "write-request-error"
	case strings.Contains(msg, "decode"):
		return "decode-error"
	case strings.Contains(msg, "status code"):
		return "status-not-implemented"
	}
	return "error"
}

func (w *worker) judgeC09(v *verdict, p *harness.Pkg, op *harness.Op, rp *harness.ReqPlan, o *harness.ReqObs, validate bool) {
	const exp = "handler's parsed parameters == parameters sent through the generated client; wire request valid for the operation"
	if o.CallerPanic != "" {
		if sim.HarnessPanic(o.CallerPanic) {
			v.harnessErr = "panic inside the harness (caller): " + clipStr(o.CallerPanic, 2000)
			return
		}
		v.violate("req:client-panic:"+frameOf(p, o.CallerPanic), clipStr(o.CallerPanic, 600), exp)
		return
	}
	if len(o.Deliveries) == 0 {
		// the client refused to send a value the request type can express
		path, typ := "", ""
		v.violate("req:client-"+errClass(o.ClientErr)+path+typ, "client did not send: "+o.ClientErr+"\n sent: "+clipStr(o.Sent, 500), exp)
		return
	}
	for di, d := range o.Deliveries {
		switch {
		case d.ReadErr != "":
			v.violate("req:wire:unparseable", fmt.Sprintf("delivery %d: http.ReadRequest failed on the client's bytes: %s", di, d.ReadErr), exp)
		case (d.Panic != "" || d.ParsePanic != "") && sim.HarnessPanic(d.PanicStack):
			v.harnessErr = "panic inside the harness: " + d.Panic + d.ParsePanic + "\n" + clipStr(d.PanicStack, 2000)
		case d.Panic != "" || d.ParsePanic != "":
			v.violate("req:server-panic:"+frameOf(p, d.PanicStack), d.Panic+d.ParsePanic, exp)
		case d.Handler == "":
			if d.Status == 401 {
				v.counters["requests_stopped_by_401"]++
				continue
			}
			v.violate(fmt.Sprintf("req:route:status-%d", d.Status), fmt.Sprintf("no handler ran for %s %s (status %d)", op.Method, op.Path, d.Status), exp)
		case d.Handler != op.Name:
			v.violate("req:route:wrong-operation", fmt.Sprintf("sent %s, handler %s ran", op.Name, d.Handler), exp)
		case d.ParseErr != "":
			v.violate("req:"+paramName(d.ParseErr)+":parse-error", "Parse() failed: "+d.ParseErr+"\n sent: "+clipStr(o.Sent, 500), exp)
		case d.Params != o.Sent:
			pv, _ := d.ParamsVal.(reflect.Value)
			path, typ, a, b := values.Diff(o.SentVal, pv)
			loc := path
			if i := strings.IndexByte(path, '.'); i > 0 {
				loc = path[:i]
			}
			v.violate("req:"+loc+":"+typ+":mismatch", fmt.Sprintf("%s: sent %s, handler parsed %s", path, clipStr(a, 300), clipStr(b, 300)), exp)
		default:
			v.counters["deliveries_agreeing"]++
		}
		if di > 0 && d.Params != o.Deliveries[0].Params {
			v.violate("req:duplicate-delivery:disagree", "two deliveries of the same bytes parsed differently", exp)
		}
	}
	if validate && rp.NoEmpty && !v.violated {
		if msg := wireValid(p, op, o.WireReq); msg == "quirk" {
			v.counters["wire_validator_quirk_skipped"]++
		} else if msg != "" && strings.Contains(msg, "Request body") && o.SentVal.IsValid() && values.HasNestedNilSlice(o.SentVal) {
			v.violate("req:wire-invalid:body:nested-nil-slice-sent-as-null", "openapi3filter rejects the client's request (the sent value holds a nil slice inside a map or an outer array, which the client encodes as null): "+clipStr(msg, 300)+"\n wire: "+clipStr(string(o.WireReq), 400), exp)
		} else if msg != "" {
			v.violate("req:wire-invalid:"+classifyValidation(msg), "openapi3filter rejects the client's request: "+clipStr(msg, 400)+"\n wire: "+clipStr(string(o.WireReq), 400), exp)
		} else {
			v.counters["wire_requests_validated"]++
		}
	}
}

var slugRe = regexp.MustCompile(`[^a-z0-9]+`)

// classifyValidation turns a validator message into a stable class: what is wrong, with which kind of schema,
// and (for bodies) how deep inside the document - so that different wire-validity defects get different keys.
func classifyValidation(msg string) string {
	kind := "other"
	switch {
	case strings.HasPrefix(msg, "route"):
		return "route"
	case strings.Contains(msg, "Request body"):
		kind = "body"
	case strings.Contains(msg, "Parameter") || strings.Contains(msg, "parameter"):
		kind = "parameter"
		if m := regexp.MustCompile(`arameter '[^']*' in ([a-z]+)`).FindStringSubmatch(msg); m != nil {
			kind = "parameter-" + m[1]
		}
	}
	reason, at := "other", -1
	for _, ph := range []string{"Value is not nullable", "is missing", "Doesn't match schema \"oneOf\"", "Doesn't match schema \"anyOf\"", "Doesn't match schema \"allOf\"",
		"has unexpected value", "must have a value", "Field must be set to", "is not one of the allowed values", "regular expression", "Number must be", "Minimum string length", "Maximum string length",
		"Minimum number of items", "is unsupported", "Property", "Invalid", "invalid"} {
		if k := strings.Index(msg, ph); k >= 0 {
			reason, at = strings.Trim(slugRe.ReplaceAllString(strings.ToLower(ph), "-"), "-"), k
			break
		}
	}
	where := ""
	if k := strings.Index(msg, `Error at "`); k >= 0 && at > k {
		where = fmt.Sprintf(":depth%d", strings.Count(msg[k:at], "/"))
	}
	typ := ""
	if m := regexp.MustCompile(`(?s)Schema:\n  \{.*?\n    "type": "([a-z]+)"\n  \}`).FindStringSubmatch(msg); m != nil {
		typ = ":" + m[1]
	} else if m := regexp.MustCompile(`\n    "type": "([a-z]+)"`).FindStringSubmatch(msg); m != nil {
		typ = ":" + m[1]
	}
	// depth and schema type go into the report text only: which of several offending places the validator
	// names first depends on its own map iteration, and a finding key must not
	_, _ = typ, where
	return kind + ":" + reason
}

func classifyValidationOld(msg string) string {
	switch {
	case strings.Contains(msg, "Parameter"):
		if i := strings.Index(msg, " in "); i > 0 {
			rest := msg[i+4:]
			if j := strings.IndexAny(rest, " :"); j > 0 {
				return "parameter-" + rest[:j]
			}
		}
		return "parameter"
	case strings.Contains(msg, "body"):
		return "body"
	case strings.Contains(msg, "route"):
		return "route"
	}
	return "other"
}

var routers = map[*harness.Pkg]*openapi3filter.Router{}

func wireValid(p *harness.Pkg, op *harness.Op, wire []byte) (msg string) {
	defer func() {
		if r := recover(); r != nil {
			msg = "" // a validator crash is not evidence against goag
		}
	}()
	rt := routers[p]
	if rt == nil {
		sw := *p.Swagger
		sw.Servers = nil // match on the path beneath the base path only; the base path is stripped below
		rt = openapi3filter.NewRouter().WithSwagger(&sw)
		routers[p] = rt
	}
	req, err := http.ReadRequest(bufio.NewReader(bytes.NewReader(wire)))
	if err != nil {
		return "unparseable: " + err.Error()
	}
	u := *req.URL
	u.Scheme, u.Host = "http", req.Host
	u.Path = strings.TrimPrefix(u.Path, p.Base)
	u.RawPath = strings.TrimPrefix(u.RawPath, p.Base)
	req.URL = &u
	route, pathParams, err := rt.FindRoute(req.Method, &u)
	if err != nil {
		return "route: " + err.Error()
	}
	if route.Path != op.Path && shapeOf(route.Path) == shapeOf(op.Path) {
		// kin-openapi v0.38's router does not distinguish "/x" from "/x/": the validator is not a reliable judge here
		return "quirk"
	}
	if route.Path != op.Path || route.Method != op.Method {
		return fmt.Sprintf("route: validator routed to %s %s, expected %s %s", route.Method, route.Path, op.Method, op.Path)
	}
	in := &openapi3filter.RequestValidationInput{Request: req, PathParams: pathParams, Route: route,
		Options: &openapi3filter.Options{AuthenticationFunc: func(context.Context, *openapi3filter.AuthenticationInput) error { return nil }}}
	if err := openapi3filter.ValidateRequest(context.Background(), in); err != nil {
		return err.Error()
	}
	return ""
}

var _ = url.Parse

// ---- C10 ---------------------------------------------------------------------------------------------------

func (w *worker) runC10(p *harness.Pkg, t *tape.Tape, logOn bool) *verdict {
	ops := usableOps(p)
	plan := drawBase(t, p)
	config := t.Choose(5, "config") // 0 fault-free, 1 data-preserving, 2 intermediary, 3 truncation, 4 in-process LocalClient-style transport
	n := 1
	if config != 0 {
		n = 1 + t.Choose(3, "callers")
	} else {
		plan.Strategy, plan.SitePct = 0, 100
	}
	if len(ops) == 0 {
		return &verdict{pkg: p, plan: plan, counters: map[string]int{"runs_on_package_without_usable_ops": 1}, probes: map[string]int{}}
	}
	for i := 0; i < n; i++ {
		rp := drawReq(t, p, ops, i)
		rp.SetAll = true // reach secured operations
		switch config {
		case 1:
			rp.Faults.ReqCutMode = t.Choose(5, "req-cut")
			rp.Faults.RespCutMode = 1 + t.Choose(4, "resp-cut")
		case 2:
			rp.Faults.Intermediary = 1 + t.Choose(len(sim.CannedResponses)-1, "canned")
			rp.Faults.RespCutMode = t.Choose(5, "resp-cut")
		case 3:
			rp.Faults.RespTruncate = true
			rp.Faults.ErrWithData = t.Choose(2, "err-with-data") == 1
			rp.Faults.RespCutMode = t.Choose(5, "resp-cut")
		case 4:
			rp.Local = true
			// without a wire, statuses that forbid a body on the wire still carry one: 204/304 become usable default codes
			if k := t.Choose(4, "local-default-code"); k > 0 && !p.Ops[rp.Op].DocCodes[[]int{0, 204, 304, 205}[k]] {
				rp.DefaultCode = []int{0, 204, 304, 205}[k]
			}
		}
		plan.Reqs = append(plan.Reqs, rp)
	}
	if config == 1 && t.Flip(1, 3, "poison") {
		// a request whose response body write is rejected outright (client gone before the first byte): whatever the
		// server keeps around from it must not leak into the other responses
		pz := drawReq(t, p, ops, len(plan.Reqs))
		pz.NotJudged = true
		pz.Faults.WriterFail, pz.Faults.WriterFailAt0 = true, true
		plan.Reqs = append([]harness.ReqPlan{pz}, plan.Reqs...)
	}
	res := harness.Exec(p, plan, t, logOn)
	v := baseVerdict(p, plan, res)
	countFaults(v, plan)
	if res.Err != nil && v.harnessErr == "" {
		v.harnessErr = fmt.Sprintf("%v: %v", res.Err, res.Blocked)
	}
	v.counters[fmt.Sprintf("config_%d_runs", config)]++
	v.nontrivial = true
	var dk []string
	for i := range plan.Reqs {
		rp := &plan.Reqs[i]
		if rp.NotJudged {
			v.counters["poison_requests"]++
			continue
		}
		o := res.Obs[rp.Tag]
		op := p.Ops[rp.Op]
		dk = append(dk, o.Op, o.PlannedType, fmt.Sprint(hash64(o.Planned)), describeFaults(rp.Faults))
		judgeC10(v, p, op, rp, o, config)
	}
	dk = append(dk, fmt.Sprint(res.SwitchHash))
	v.distinctKey = strings.Join(dk, "|")
	v.trace = traceOf(p, plan, res)
	v.sample = map[string]any{"package": p.Name, "config": config, "trace": v.trace}
	return v
}

func statusClass(kind string) string {
	if strings.Contains(kind, "Default") {
		return "default"
	}
	return "documented"
}

func judgeC10(v *verdict, p *harness.Pkg, op *harness.Op, rp *harness.ReqPlan, o *harness.ReqObs, config int) {
	const exp = "client returns the same response kind with equal status, headers and body; undocumented status -> default kind or error"
	if o.CallerPanic != "" {
		if sim.HarnessPanic(o.CallerPanic) {
			v.harnessErr = "panic inside the harness (caller): " + clipStr(o.CallerPanic, 2000)
			return
		}
		v.violate("resp:client-panic:"+frameOf(p, o.CallerPanic), clipStr(o.CallerPanic, 600), exp)
		return
	}
	if len(o.Deliveries) == 0 {
		v.counters["requests_not_sent"]++ // C09's subject
		return
	}
	d := o.Deliveries[0]
	if d.Handler == "" || o.Planned == "" || d.Panic != "" {
		v.counters["requests_without_planned_response"]++
		return
	}
	if op.Method == http.MethodHead {
		v.counters["head_operations_skipped"]++
		return
	}
	switch config {
	case 0, 1, 4:
		switch {
		case o.ClientErr != "":
			v.violate("resp:"+statusClass(o.PlannedType)+":client-"+errClass(o.ClientErr), fmt.Sprintf("handler returned %s %s; client error: %s", o.PlannedType, clipStr(o.Planned, 300), o.ClientErr), exp)
		case o.ClientType != o.PlannedType:
			v.violate("resp:"+statusClass(o.PlannedType)+":kind:mismatch", fmt.Sprintf("handler returned %s, client returned %s", o.PlannedType, o.ClientType), exp)
		case o.ClientRet != o.Planned:
			part := "body"
			if !strings.Contains(o.Planned, "Body:") || headerPart(o.Planned) != headerPart(o.ClientRet) {
				part = "headers-or-code"
			}
			v.violate("resp:"+statusClass(o.PlannedType)+":"+part+":mismatch", fmt.Sprintf("handler returned %s\n client returned  %s", clipStr(o.Planned, 500), clipStr(o.ClientRet, 500)), exp)
		default:
			v.counters["responses_reconstructed"]++
		}
	case 2:
		st := o.Intermediary
		if op.DocCodes[st] {
			v.counters["intermediary_status_is_documented_skipped"]++
			return
		}
		switch {
		case o.ClientErr != "":
			v.probes["intermediary_to_error_arm"]++
		case statusClass(o.ClientType) == "default":
			if !strings.Contains(o.ClientRet, fmt.Sprintf("Code:%d ", st)) {
				v.violate("resp:intermediary:default-code:mismatch", fmt.Sprintf("intermediary answered %d, client returned %s", st, clipStr(o.ClientRet, 300)), exp)
			} else {
				v.probes["intermediary_to_default_arm"]++
			}
		default:
			v.violate("resp:intermediary:documented-kind", fmt.Sprintf("intermediary answered undocumented status %d, client returned documented kind %s %s", st, o.ClientType, clipStr(o.ClientRet, 300)), exp)
		}
	case 3:
		switch {
		case o.ClientErr != "":
			v.probes["truncation_to_error"]++
		case strings.Contains(o.ClientRet, " err:"):
			v.probes["truncation_to_body_reader_error"]++
		case o.ClientType == o.PlannedType && o.ClientRet == o.Planned:
			v.probes["truncation_after_all_needed_bytes"]++
		default:
			v.violate("resp:truncated:wrong-value", fmt.Sprintf("response cut mid-stream; handler returned %s %s\n client returned successfully %s %s", o.PlannedType, clipStr(o.Planned, 400), o.ClientType, clipStr(o.ClientRet, 400)), exp)
		}
	}
}

func headerPart(canon string) string {
	if i := strings.Index(canon, "Body:"); i >= 0 {
		return canon[:i]
	}
	return canon
}

// ---- C14 ---------------------------------------------------------------------------------------------------

func (w *worker) runC14(p *harness.Pkg, t *tape.Tape, logOn bool) *verdict {
	ops := usableOps(p)
	plan := drawBase(t, p)
	if len(ops) == 0 {
		return &verdict{pkg: p, plan: plan, counters: map[string]int{"runs_on_package_without_usable_ops": 1}, probes: map[string]int{}}
	}
	plan.NilAuth = t.Flip(1, 8, "nil-auth")
	plan.NilCORS = t.Flip(1, 8, "nil-cors")
	plan.NilSpec = t.Flip(1, 8, "nil-spec")
	plan.CustomNotFound = t.Flip(1, 4, "custom-not-found")
	n := 1 + t.Choose(4, "requests")
	nAfter := 0
	for i := 0; i < n; i++ {
		var rp harness.ReqPlan
		switch t.Choose(6, "kind") {
		case 3:
			rp = drawReq(t, p, ops, i) // a valid typed call under nasty stream faults
		case 4:
			rp = specialRaw(t, p, ops, i) // spec file, not found, CORS preflight
		default:
			rp = drawRaw(t, p, ops, i, 4)
		}
		f := &rp.Faults
		f.ReqCutMode = t.Choose(5, "req-cut")
		switch t.Choose(9, "stream-fault") {
		case 8:
			f.SrvCancelAtStart = true
		case 1:
			f.ReqReset = true
		case 2:
			f.ReqReset, f.ReqResetInBody = true, true
		case 3:
			f.ReqReset, f.ReqResetInBody, f.ErrWithData = true, true, true
		case 4:
			f.WriterFail = true
		case 5:
			f.SrvCancelStep = 1 + t.Choose(60, "cancel-step")
		case 6:
			f.RawRespFail = true
		case 7:
			f.WriterFail, f.ReqReset, f.ReqResetInBody = true, true, true
		}
		rp.AuthReject = t.Flip(1, 5, "auth-reject")
		rp.RespEmptyArrays = true
		// a handler result whose JSON body cannot be encoded (NaN / infinite number): the writer's error path
		rp.RespBadFloats = rp.Kind == 0 && t.Flip(1, 4, "unencodable-response")
		// a history: this request is sent only when the previous one (and whatever its faults left behind) is over
		if i > 0 && t.Flip(1, 3, "after-previous") {
			rp.After = plan.Reqs[i-1].Tag
			nAfter++
		}
		plan.Reqs = append(plan.Reqs, rp)
	}
	res := harness.Exec(p, plan, t, logOn)
	v := baseVerdict(p, plan, res)
	countFaults(v, plan)
	if nAfter > 0 {
		v.counters["requests_sent_after_the_previous_one_was_over"] += nAfter
	}
	const exp = "no panic escapes the generated API or Parse(); at most one header write; every server task terminates"
	v.nontrivial = true
	var dk []string
	if res.Err != nil {
		v.violate("stall:"+res.Err.Error(), fmt.Sprintf("%v: %v", res.Err, res.Blocked), exp)
	}
	for i := range plan.Reqs {
		rp := &plan.Reqs[i]
		o := res.Obs[rp.Tag]
		dk = append(dk, fmt.Sprint(hash64(string(o.WireReq))), describeFaults(rp.Faults))
		for _, d := range o.Deliveries {
			switch {
			case d.ReadErr != "":
				v.counters["rejected_by_http_ReadRequest"]++
			case d.Handler != "":
				v.counters["reached_a_handler"]++
			default:
				v.counters[fmt.Sprintf("answered_without_handler_%d", d.Status)]++
			}
			if d.ParseErr != "" {
				v.counters["parse_returned_error"]++
			}
			if (d.Panic != "" || d.ParsePanic != "") && sim.HarnessPanic(d.PanicStack) && v.harnessErr == "" {
				v.harnessErr = "panic inside the harness: " + d.Panic + d.ParsePanic + "\n" + clipStr(d.PanicStack, 2000)
				continue
			}
			if d.Panic != "" {
				v.violate("panic:"+frameOf(p, d.PanicStack), "panic escaped API.ServeHTTP: "+clipStr(d.Panic, 300)+"\n"+clipStr(d.PanicStack, 1500), exp)
			}
			if d.ParsePanic != "" {
				v.violate("panic:"+frameOf(p, d.PanicStack), "panic in Parse(): "+clipStr(d.ParsePanic, 300)+"\n"+clipStr(d.PanicStack, 1500), exp)
			}
			if d.Superfluous > 0 {
				v.violate("double-header:"+d.Handler, fmt.Sprintf("WriteHeader called %d more time(s) after the header was committed (status %d)", d.Superfluous, d.Status), exp)
			}
			if d.Entered && !d.Finished {
				v.violate("stall:unfinished-server-task", "server task did not finish", exp)
			}
			if d.Handler != "" && d.Panic == "" && d.ParsePanic == "" && d.HeaderWrites == 0 && d.Finished {
				// the handler returned a documented response value, but the generated code never started a response
				v.violate("no-response:handler-result-not-written", fmt.Sprintf("handler %s returned a response value but neither WriteHeader nor Write was called (the shell had to send an implicit empty 200)", d.Handler), exp)
			}
		}
	}
	v.distinctKey = strings.Join(dk, "|")
	v.trace = traceOf(p, plan, res)
	v.sample = map[string]any{"package": p.Name, "trace": v.trace}
	return v
}

// ---- C20 ---------------------------------------------------------------------------------------------------

func obsRecord(o *harness.ReqObs) map[string]string {
	m := map[string]string{
		"client_result_type": o.ClientType,
		"client_result":      o.ClientRet,
		"client_error":       o.ClientErr,
		"wire_request":       string(o.WireReq),
		"raw_response":       string(o.RawResp),
		"deliveries":         fmt.Sprint(len(o.Deliveries)),
		"caller_panic":       clipStr(o.CallerPanic, 200),
	}
	for i, d := range o.Deliveries {
		pre := fmt.Sprintf("delivery%d.", i)
		m[pre+"read_error"] = d.ReadErr
		m[pre+"handler"] = d.Handler
		m[pre+"parse_error"] = d.ParseErr
		m[pre+"parsed_params"] = d.Params
		m[pre+"trace"] = strings.Join(d.Trace, "; ")
		m[pre+"auth_context"] = d.CtxTag
		m[pre+"panic"] = d.Panic + d.ParsePanic
		m[pre+"status"] = fmt.Sprint(d.Status)
		m[pre+"header_writes"] = fmt.Sprint(d.HeaderWrites, "/", d.Superfluous)
		m[pre+"response_wire"] = string(d.RespWire)
	}
	return m
}

var c20Sizes = []int{2, 3, 4, 5, 6, 8, 16, 32, 64}

func (w *worker) runC20(p *harness.Pkg, t *tape.Tape, logOn bool) *verdict {
	ops := usableOps(p)
	plan := drawBase(t, p)
	if len(ops) == 0 {
		return &verdict{pkg: p, plan: plan, counters: map[string]int{"runs_on_package_without_usable_ops": 1}, probes: map[string]int{}}
	}
	plan.HashEvery = 16
	plan.NilAuth = t.Flip(1, 10, "nil-auth")
	plan.NilCORS = t.Flip(1, 10, "nil-cors")
	plan.NilSpec = t.Flip(1, 10, "nil-spec")
	plan.CustomNotFound = t.Flip(1, 4, "custom-not-found")
	si := t.Choose(len(c20Sizes), "concurrency")
	if si >= 6 && t.Choose(3, "really-large") != 0 {
		si = t.Choose(6, "concurrency")
	}
	n := c20Sizes[si]
	if p.NoRace && n > 8 {
		// goroutines / channels of the package's own: every step costs a goroutine dump while a task is blocked in one
		// of its real operations, so the large configurations are left to packages without them
		n = 8
	}
	for i := 0; i < n; i++ {
		var rp harness.ReqPlan
		switch k := t.Choose(8, "kind"); {
		case k == 6:
			rp = specialRaw(t, p, ops, i)
		case k == 7:
			rp = drawRaw(t, p, ops, i, 2)
		default:
			rp = drawReq(t, p, ops, i)
		}
		f := &rp.Faults
		if t.Flip(1, 2, "faults") {
			f.ReqCutMode = t.Choose(5, "req-cut")
			f.RespCutMode = t.Choose(5, "resp-cut")
			switch t.Choose(11, "fault") {
			case 10:
				f.SrvCancelAtStart = true
			case 1:
				f.Dup = true
			case 2:
				f.ReqReset, f.ReqResetInBody = true, true
			case 3:
				f.RespTruncate = true
			case 4:
				f.Intermediary = 1 + t.Choose(len(sim.CannedResponses)-1, "canned")
			case 5:
				f.WriterFail = true
			case 6:
				f.CancelBefore = true
			case 7:
				f.SrvCancelStep = 1 + t.Choose(60, "cancel-step")
			case 8:
				f.RawRespFail = true
			}
		}
		rp.AuthReject = t.Flip(1, 6, "auth-reject")
		rp.RespEmptyArrays = t.Choose(2, "empty-header-arrays") == 1
		// a twin: same operation and exactly the same request values as an earlier typed request of this run
		if i > 0 && rp.Kind == 0 && t.Flip(1, 4, "twin") {
			src := plan.Reqs[t.Choose(i, "twin-of")]
			if src.Kind == 0 {
				rp.Op, rp.ValueSeed, rp.Level, rp.SetAll, rp.NoEmpty = src.Op, src.ValueSeed, src.Level, src.SetAll, src.NoEmpty
				rp.ValueTag = src.Tag
				if src.ValueTag != "" {
					rp.ValueTag = src.ValueTag
				}
				rp.RespIdx = rp.RespIdx % len(p.Ops[rp.Op].RespTypes)
				v0 := 0
				_ = v0
			}
		}
		// a nested request: sent in-process by the harness handler of an earlier typed request while that one is served
		if i > 0 && rp.Kind == 0 && rp.ValueTag == "" && t.Flip(1, 6, "nested") {
			par := plan.Reqs[t.Choose(i, "nested-in")]
			if par.Kind == 0 && par.Parent == "" {
				rp.Parent, rp.Local, rp.Faults = par.Tag, true, sim.Faults{Seed: rp.Faults.Seed}
			}
		}
		plan.Reqs = append(plan.Reqs, rp)
	}
	// a history inside the execution: one request (biased towards a response the server cannot encode) is served to
	// completion before the callers of the others start; what it left behind meets the concurrent batch
	if n >= 3 && t.Flip(1, 5, "prelude") {
		pi := t.Choose(len(plan.Reqs), "prelude-request")
		if pre := &plan.Reqs[pi]; pre.Parent == "" {
			pre.RespBadFloats = pre.Kind == 0 && t.Flip(1, 2, "prelude-unencodable")
			for i := range plan.Reqs {
				if rq := &plan.Reqs[i]; i != pi && rq.Parent == "" {
					rq.After = pre.Tag
				}
			}
			plan.Prelude = pre.Tag
		}
	}
	// reference: every request alone, zero tape, fresh API and Client
	solo := map[string]map[string]string{}
	for i := range plan.Reqs {
		sp := *plan
		me := plan.Reqs[i]
		me.Parent = "" // a nested request is referenced standing alone
		me.After, sp.Prelude = "", ""
		sp.Reqs = []harness.ReqPlan{me}
		for _, c := range plan.Reqs {
			if c.Parent == me.Tag {
				sp.Reqs = append(sp.Reqs, c) // a parent is referenced together with the requests its handler sends
			}
		}
		sp.HashEvery = 0
		sr := harness.Exec(p, &sp, tape.Zero(), false)
		if sr.HarnessPanic != "" {
			return &verdict{pkg: p, plan: plan, harnessErr: "solo run: " + sr.HarnessPanic, counters: map[string]int{}, probes: map[string]int{}}
		}
		rec := obsRecord(sr.Obs[plan.Reqs[i].Tag])
		if sr.Err != nil {
			rec["run_error"] = sr.Err.Error()
		}
		solo[plan.Reqs[i].Tag] = rec
	}
	res := harness.Exec(p, plan, t, logOn)
	v := baseVerdict(p, plan, res)
	countFaults(v, plan)
	v.counters[fmt.Sprintf("runs_with_%d_concurrent_requests", n)]++
	v.counters["solo_reference_runs"] += n
	if plan.Prelude != "" {
		v.counters["runs_with_a_request_served_to_completion_before_the_concurrent_batch"]++
		if o := res.Obs[plan.Prelude]; o != nil && o.ClientErr != "" {
			v.probes["prelude_request_ended_with_a_client_error"]++
		}
		if rq := planReq(plan, plan.Prelude); rq != nil && rq.RespBadFloats {
			v.probes["prelude_response_planned_with_unencodable_floats"]++
		}
	}
	const exp = "per request: observation under the concurrent schedule == observation of the same request executed alone; no write to shared state by a request task; every caller returns"
	if res.Err != nil {
		soloStalled := false
		for _, r := range solo {
			if r["run_error"] != "" {
				soloStalled = true
			}
		}
		if !soloStalled {
			v.violate("isolation:stall", fmt.Sprintf("%v: %v", res.Err, res.Blocked), exp)
		}
	}
	if len(res.SharedWrites) > 0 {
		what := res.SharedWrites[0]
		name := what
		if i := strings.Index(what, " changed"); i > 0 {
			name = what[:i]
		}
		v.violate("sharedwrite:"+strings.ReplaceAll(name, " ", "_"), strings.Join(res.SharedWrites, "\n"), exp)
	}
	if len(res.Races) > 0 {
		var all []string
		for _, r := range res.Races {
			all = append(all, r.Text)
		}
		v.violate("race:"+res.Races[0].Loc, strings.Join(all, "\n"), exp+"; no two accesses to one location by different tasks, one of them a write, without a happens-before edge between them")
	}
	if !v.violated && res.Err == nil {
		tags := append([]string(nil), res.Order...)
		sort.Strings(tags)
		parentOf := map[string]string{}
		for _, rq := range plan.Reqs {
			parentOf[rq.Tag] = rq.Parent
		}
	outer:
		for _, tag := range tags {
			if parentOf[tag] != "" && len(res.Obs[tag].Deliveries) == 0 && res.Obs[tag].ClientErr == "" && res.Obs[tag].ClientRet == "" {
				v.counters["nested_requests_never_sent"]++ // the parent's handler did not run (401, 404, reset, ...)
				continue
			}
			got := obsRecord(res.Obs[tag])
			want := solo[tag]
			fields := make([]string, 0, len(want))
			for k := range want {
				fields = append(fields, k)
			}
			for k := range got {
				if _, ok := want[k]; !ok {
					fields = append(fields, k)
				}
			}
			sort.Strings(fields)
			for _, k := range fields {
				if got[k] != want[k] {
					fk := k
					if i := strings.IndexByte(k, '.'); i > 0 {
						fk = k[i+1:]
					}
					v.violate("isolation:"+fk, fmt.Sprintf("request %s, field %s:\n alone:      %s\n concurrent: %s", tag, k, clipStr(want[k], 500), clipStr(got[k], 500)), exp)
					break outer
				}
			}
		}
	}
	if len(res.Stray) > 0 {
		v.counters["events_outside_request_tasks"] += len(res.Stray)
	}
	v.nontrivial = res.Switches > 0
	v.distinctKey = fmt.Sprint(n, res.SwitchHash, hash64(strings.Join(v.logParts, "|")))
	v.trace = traceOf(p, plan, res)
	if len(v.trace) > 60 {
		v.trace = append(v.trace[:60], fmt.Sprintf("… %d more lines", len(v.trace)-60))
	}
	v.sample = map[string]any{"package": p.Name, "concurrent_requests": n, "scheduler_steps": res.Steps, "context_switches": res.Switches, "trace_head": headOf(v.trace, 12)}
	return v
}

func planReq(plan *harness.RunPlan, tag string) *harness.ReqPlan {
	for i := range plan.Reqs {
		if plan.Reqs[i].Tag == tag {
			return &plan.Reqs[i]
		}
	}
	return nil
}

func headOf(s []string, n int) []string {
	if len(s) > n {
		return s[:n]
	}
	return s
}

// shapeOf reduces a path template to what kin-openapi v0.38's router distinguishes: variable names and a
// trailing slash are ignored by it.
func shapeOf(tpl string) string {
	var b strings.Builder
	in := false
	for _, c := range strings.TrimSuffix(tpl, "/") {
		switch {
		case c == '{':
			in = true
			b.WriteString("{}")
		case c == '}':
			in = false
		case !in:
			b.WriteRune(c)
		}
	}
	return b.String()
}
