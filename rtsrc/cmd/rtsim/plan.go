package main

import (
	"bytes"
	"context"
	"errors"
	"fmt"
	"math/rand/v2"
	"net/http"
	"reflect"
	"sort"
	"strconv"
	"strings"

	"verifsim/harness"
	"verifsim/sim"
	"verifsim/tape"
)

func usableOps(p *harness.Pkg) []int {
	var out []int
	for i, op := range p.Ops {
		if op.Unsupported == "" && len(op.RespTypes) > 0 {
			out = append(out, i)
		}
	}
	return out
}

var sitePcts = []int{100, 50, 10}

func drawBase(t *tape.Tape, p *harness.Pkg) *harness.RunPlan {
	return &harness.RunPlan{Pkg: p.Name, Strategy: t.Choose(2, "strategy"), SitePct: sitePcts[t.Choose(3, "site-pct")], Salt: uint64(t.Choose(1<<16, "salt")),
		Middlewares: t.Choose(3, "middlewares"), HashEvery: 0}
}

var defaultCodes = []int{500, 400, 401, 403, 404, 409, 418, 422, 429, 502, 503, 599, 201, 202, 299, 300, 399, 200}

func drawReq(t *tape.Tape, p *harness.Pkg, ops []int, i int) harness.ReqPlan {
	rp := harness.ReqPlan{Tag: fmt.Sprintf("r%d", i), Op: ops[t.Choose(len(ops), "op")]}
	op := p.Ops[rp.Op]
	rp.Level = t.Choose(3, "value-level")
	rp.ValueSeed = uint64(t.Choose(1<<30, "value-seed"))
	rp.SetAll = t.Choose(2, "set-all") == 1
	rp.RespIdx = t.Choose(len(op.RespTypes), "resp-kind")
	rp.RespSeed = uint64(t.Choose(1<<30, "resp-seed"))
	// default code: an undocumented status
	var cands []int
	for _, c := range defaultCodes {
		if !op.DocCodes[c] {
			cands = append(cands, c)
		}
	}
	if len(cands) == 0 {
		cands = []int{599}
	}
	rp.DefaultCode = cands[t.Choose(len(cands), "default-code")]
	rp.Faults.Seed = uint64(t.Choose(1<<30, "fault-seed"))
	if len(p.Schemes) > 0 && t.Choose(3, "transport-credential") == 1 {
		rp.InjectCred = 1 + t.Choose(len(p.Schemes), "scheme")
	}
	return rp
}

// ---- raw requests (C14 adversary, C20 special requests) --------------------------------------------------

type captureTransport struct{ wire []byte }

var errCaptured = errors.New("captured")

func (c *captureTransport) Do(req *http.Request) (*http.Response, error) {
	var b bytes.Buffer
	if err := req.Write(&b); err != nil {
		return nil, err
	}
	c.wire = b.Bytes()
	return nil, errCaptured
}

// captureWire asks the generated client for the bytes of a valid request (outside the scheduler).
func captureWire(p *harness.Pkg, rp *harness.ReqPlan) []byte {
	ct := &captureTransport{}
	cli := reflect.ValueOf(p.Funcs["NewClient"]).Call([]reflect.Value{reflect.ValueOf(p.URL()), reflect.ValueOf(ct)})[0]
	params, _ := harness.BuildParams(p, rp)
	func() {
		defer func() { recover() }()
		cli.MethodByName(p.Ops[rp.Op].Name).Call([]reflect.Value{reflect.ValueOf(context.Background()), params})
	}()
	return ct.wire
}

type rawReq struct {
	method, target, proto string
	hdr                   [][2]string
	body                  []byte
	keepCL                bool
	chunked               bool // send the body with Transfer-Encoding: chunked (the server sees ContentLength == -1)
}

func parseRaw(wire []byte) *rawReq {
	i := bytes.Index(wire, []byte("\r\n\r\n"))
	if i < 0 {
		return nil
	}
	lines := strings.Split(string(wire[:i]), "\r\n")
	parts := strings.SplitN(lines[0], " ", 3)
	if len(parts) != 3 {
		return nil
	}
	r := &rawReq{method: parts[0], target: parts[1], proto: parts[2], body: wire[i+4:]}
	chunked := false
	for _, l := range lines[1:] {
		kv := strings.SplitN(l, ": ", 2)
		if len(kv) == 2 {
			if strings.EqualFold(kv[0], "Transfer-Encoding") {
				chunked = true
				continue
			}
			if strings.EqualFold(kv[0], "Content-Length") {
				continue
			}
			r.hdr = append(r.hdr, [2]string{kv[0], kv[1]})
		}
	}
	if chunked {
		// de-chunk (bodies written by req.Write for unknown lengths)
		var out []byte
		b := r.body
		for len(b) > 0 {
			j := bytes.Index(b, []byte("\r\n"))
			if j < 0 {
				break
			}
			n, err := strconv.ParseInt(string(b[:j]), 16, 64)
			if err != nil || n == 0 || int(n) > len(b)-j-2 {
				break
			}
			out = append(out, b[j+2:j+2+int(n)]...)
			b = b[j+2+int(n):]
			b = bytes.TrimPrefix(b, []byte("\r\n"))
		}
		r.body = out
	}
	return r
}

func (r *rawReq) bytes() []byte {
	var b bytes.Buffer
	fmt.Fprintf(&b, "%s %s %s\r\n", r.method, r.target, r.proto)
	if r.chunked {
		for _, h := range r.hdr {
			if !strings.EqualFold(h[0], "Content-Length") {
				fmt.Fprintf(&b, "%s: %s\r\n", h[0], h[1])
			}
		}
		b.WriteString("Transfer-Encoding: chunked\r\n\r\n")
		for i := 0; i < len(r.body); {
			n := 7
			if i+n > len(r.body) {
				n = len(r.body) - i
			}
			fmt.Fprintf(&b, "%x\r\n%s\r\n", n, r.body[i:i+n])
			i += n
		}
		b.WriteString("0\r\n\r\n")
		return b.Bytes()
	}
	hasCL := false
	for _, h := range r.hdr {
		if strings.EqualFold(h[0], "Content-Length") {
			hasCL = true
		}
		fmt.Fprintf(&b, "%s: %s\r\n", h[0], h[1])
	}
	if !hasCL && (len(r.body) > 0 || r.method == "POST" || r.method == "PUT" || r.method == "PATCH") {
		fmt.Fprintf(&b, "Content-Length: %d\r\n", len(r.body))
	}
	b.WriteString("\r\n")
	b.Write(r.body)
	return b.Bytes()
}

func splitTarget(t string) (path, query string) {
	if i := strings.IndexByte(t, '?'); i >= 0 {
		return t[:i], t[i+1:]
	}
	return t, ""
}

var methodsPool = []string{"GET", "POST", "PUT", "PATCH", "DELETE", "HEAD", "OPTIONS", "TRACE", "CONNECT", "get", "Post", "FOO", "PROPFIND", "M-SEARCH"}

// mutate applies one seeded mutation aimed at the declared shapes; returns its description.
func (r *rawReq) mutate(rng *rand.Rand, which int) string {
	path, query := splitTarget(r.target)
	segs := strings.Split(path, "/")
	join := func() {
		r.target = path
		if query != "" {
			r.target += "?" + query
		}
	}
	switch which {
	case 0: // truncate the path at a segment boundary
		if len(segs) > 1 {
			k := 1 + rng.IntN(len(segs)-1)
			path = strings.Join(segs[:k], "/")
			if path == "" {
				path = "/"
			}
		}
		join()
		return "path truncated to " + path
	case 1:
		k := rng.IntN(len(segs))
		segs[k] = segs[k] + "/"
		path = strings.Join(segs, "/")
		join()
		return "doubled slash"
	case 2:
		if strings.HasSuffix(path, "/") && len(path) > 1 {
			path = strings.TrimSuffix(path, "/")
		} else {
			path += "/"
		}
		join()
		return "trailing slash toggled"
	case 3: // base-path / first segment near-miss
		if len(segs) > 1 && len(segs[1]) > 0 {
			switch rng.IntN(4) {
			case 0:
				segs[1] = segs[1][:len(segs[1])-1]
			case 1:
				segs[1] += "x"
			case 2:
				segs[1] = strings.ToUpper(segs[1])
			case 3:
				segs = append(segs[:1], segs[2:]...)
			}
			path = strings.Join(segs, "/")
			if path == "" {
				path = "/"
			}
		}
		join()
		return "first segment near-miss -> " + clipStr(path, 80)
	case 4:
		k := rng.IntN(len(segs))
		if rng.IntN(2) == 0 {
			segs[k] = ""
		} else {
			segs[k] = strings.Repeat("S", 65536)
		}
		path = strings.Join(segs, "/")
		if !strings.HasPrefix(path, "/") {
			path = "/" + path
		}
		join()
		return "empty or 64KiB segment"
	case 5:
		r.target = []string{"*", "http://other.example/abs/path?x=1", "//double", "/", "/%2e%2e/%2e%2e/etc", "/a%00b", "/%"}[rng.IntN(7)]
		return "exotic target " + r.target
	case 6:
		segs[len(segs)-1] = []string{"openapi.yaml", "openapi.yaml/", "spec.json", ""}[rng.IntN(4)]
		path = strings.Join(segs, "/")
		join()
		return "last segment -> spec file name"
	case 7:
		r.method = methodsPool[rng.IntN(len(methodsPool))]
		return "method -> " + r.method
	case 8: // query mutations
		kvs := strings.Split(query, "&")
		switch rng.IntN(8) {
		case 0:
			if query != "" {
				kvs = append(kvs, kvs[rng.IntN(len(kvs))])
			}
		case 1:
			for i := range kvs {
				if j := strings.IndexByte(kvs[i], '='); j >= 0 && rng.IntN(2) == 0 {
					kvs[i] = kvs[i][:j+1]
				}
			}
		case 2:
			for i := range kvs {
				if j := strings.IndexByte(kvs[i], '='); j >= 0 && rng.IntN(2) == 0 {
					kvs[i] = kvs[i][:j+1] + strings.Repeat("9", 70000)
				}
			}
		case 3:
			for i := range kvs {
				if j := strings.IndexByte(kvs[i], '='); j >= 0 && rng.IntN(2) == 0 {
					kvs[i] = kvs[i][:j+1] + "%ff%fe"
				}
			}
		case 4:
			for i := range kvs {
				if j := strings.IndexByte(kvs[i], '='); j >= 0 && rng.IntN(2) == 0 {
					kvs[i] = kvs[i][:j]
				}
			}
		case 5:
			kvs = nil
		case 6:
			kvs = append(kvs, "unknown=1", "=novalue", "&&", "a;b=c")
		case 7:
			for i := range kvs {
				if j := strings.IndexByte(kvs[i], '='); j >= 0 {
					kvs[i] = kvs[i][:j+1] + []string{"abc", "-", "1e999", "NaN", "99999999999999999999", "true1", "2020-13-45T99:99:99Z", "%zz"}[rng.IntN(8)]
				}
			}
		}
		query = strings.Join(kvs, "&")
		join()
		return "query mutated -> " + clipStr(query, 80)
	case 9: // header mutations
		if len(r.hdr) == 0 {
			r.hdr = append(r.hdr, [2]string{"X-Extra", "1"})
			return "header added"
		}
		k := rng.IntN(len(r.hdr))
		switch rng.IntN(7) {
		case 6:
			v := r.hdr[k][1]
			if len(v) > 0 {
				r.hdr[k][1] = v[:rng.IntN(len(v))]
			}
			if rng.IntN(2) == 0 {
				r.hdr[k][1] = []string{"Bearer", "Bearer ", "bearer x", "B", " "}[rng.IntN(5)]
			}
			return "header value shortened: " + r.hdr[k][0] + "=" + r.hdr[k][1]
		case 0:
			r.hdr = append(r.hdr, r.hdr[k])
			return "header duplicated: " + r.hdr[k][0]
		case 1:
			r.hdr[k][1] = ""
			return "header emptied: " + r.hdr[k][0]
		case 2:
			r.hdr[k][1] = strings.Repeat("h", 70000)
			return "header huge: " + r.hdr[k][0]
		case 3:
			name := r.hdr[k][0]
			r.hdr = append(r.hdr[:k], r.hdr[k+1:]...)
			return "header removed: " + name
		case 4:
			r.hdr[k][1] = "\xff\xfe bad utf8"
			return "header non-UTF-8: " + r.hdr[k][0]
		case 5:
			r.hdr = append(r.hdr, [2]string{"Content-Type", []string{"text/plain", "application/xml", "application/json; charset=latin1", "multipart/form-data"}[rng.IntN(4)]})
			return "content-type added"
		}
	case 10: // body mutations
		switch rng.IntN(18) {
		case 12, 13, 14, 15, 16, 17:
			// one scalar value of the document swapped for a value of another JSON type
			type span struct{ a, b int }
			var spans []span
			for i := 0; i < len(r.body); i++ {
				c := r.body[i]
				switch {
				case c == '"':
					j := i + 1
					for j < len(r.body) && r.body[j] != '"' {
						if r.body[j] == '\\' {
							j++
						}
						j++
					}
					// a value (not a key) is not followed by ':'
					k := j + 1
					for k < len(r.body) && (r.body[k] == ' ' || r.body[k] == '\n') {
						k++
					}
					if j < len(r.body) && (k >= len(r.body) || r.body[k] != ':') {
						spans = append(spans, span{i, j + 1})
					}
					i = j
				case (c >= '0' && c <= '9') || c == '-' || c == 't' || c == 'f' || c == 'n':
					j := i
					for j < len(r.body) && !strings.ContainsRune(",]} \n", rune(r.body[j])) {
						j++
					}
					spans = append(spans, span{i, j})
					i = j
				}
			}
			if len(spans) == 0 {
				r.body = []byte("7")
				return "body replaced by a bare digit"
			}
			sp := spans[rng.IntN(len(spans))]
			alt := []string{"7", "0", "42", "-1", "1.5", "1e400", "true", "null", "{}", "[]", `""`, `"x"`, `[null]`, `{"a":null}`, "3", "9"}[rng.IntN(16)]
			nb := append([]byte{}, r.body[:sp.a]...)
			nb = append(nb, alt...)
			nb = append(nb, r.body[sp.b:]...)
			r.body = nb
			return "one body value replaced by " + alt
		case 10:
			// every JSON string value replaced (unknown discriminator, unparsable times, ...)
			out := make([]byte, 0, len(r.body))
			in, afterColon := false, false
			for i := 0; i < len(r.body); i++ {
				c := r.body[i]
				switch {
				case !in && c == ':':
					afterColon = true
					out = append(out, c)
				case !in && c == '"' && afterColon:
					in = true
					out = append(out, []byte(`"zzz`)...)
				case in && c == '\\':
					i++
				case in && c == '"':
					in, afterColon = false, false
					out = append(out, c)
				case in:
				default:
					if c != ' ' {
						afterColon = afterColon && c == ':'
					}
					out = append(out, c)
				}
			}
			r.body = out
			return "body string values replaced by zzz"
		case 11:
			r.body = []byte(`{"kind":"nope","t":"nope","petType":"nope","type":7}`)
			return "body with unknown discriminator values"
		case 0:
			r.body = nil
			return "body emptied"
		case 1:
			r.body = []byte("null")
			return "body null"
		case 2:
			r.body = r.body[:len(r.body)/2]
			return "body truncated JSON"
		case 3:
			r.body = []byte([]string{"[]", `"s"`, "123", "true", "{}", `{"a":{"b":[1,{"c":null}]}}`}[rng.IntN(6)])
			return "body wrong JSON type: " + string(r.body)
		case 4:
			r.body = []byte(strings.Repeat("[", 20000))
			return "body 20k-deep nesting"
		case 5:
			r.body = []byte("<xml>not json</xml>")
			return "body non-JSON"
		case 6:
			r.body = append(r.body, []byte(" trailing garbage }{")...)
			return "body trailing garbage"
		case 7:
			r.body = bytes.Repeat([]byte(`{"k":"v"},`), 20000)
			return "body huge"
		case 8:
			// swap JSON value types in place
			r.body = bytes.ReplaceAll(r.body, []byte(`":"`), []byte(`":["`))
			return "body string values broken"
		case 9:
			r.body = bytes.ReplaceAll(r.body, []byte(`:`), []byte(`:null,"x":`))
			return "body nulls injected"
		}
	case 12:
		r.chunked = true
		return "body sent chunked (unknown length)"
	case 11: // content-length games
		r.hdr = append(r.hdr, [2]string{"Content-Length", strconv.Itoa(len(r.body) + []int{-1, 1, 100000}[rng.IntN(3)])})
		return "wrong content-length"
	}
	return "noop"
}

func clipStr(s string, n int) string {
	if len(s) > n {
		return s[:n] + "…"
	}
	return s
}

// drawRaw builds an adversarial raw request from a valid one.
func drawRaw(t *tape.Tape, p *harness.Pkg, ops []int, i int, maxMut int) harness.ReqPlan {
	rp := drawReq(t, p, ops, i)
	wire := captureWire(p, &rp)
	rp.Kind = 1
	r := parseRaw(wire)
	if r == nil {
		r = &rawReq{method: "GET", target: "/", proto: "HTTP/1.1", hdr: [][2]string{{"Host", "sim.local"}}}
		rp.RawDesc = append(rp.RawDesc, "client produced no wire request; using GET /")
	}
	r.hdr = append(r.hdr, [2]string{"X-Verif-Tag", rp.Tag})
	rng := rand.New(rand.NewPCG(rp.ValueSeed, 99))
	n := t.Choose(maxMut+1, "mutations")
	for k := 0; k < n; k++ {
		rp.RawDesc = append(rp.RawDesc, r.mutate(rng, t.Choose(13, "mutation")))
	}
	rp.Raw = r.bytes()
	return rp
}

// specialRaw builds one of the non-operation requests: spec file, not found, CORS preflight.
func specialRaw(t *tape.Tape, p *harness.Pkg, ops []int, i int) harness.ReqPlan {
	rp := drawReq(t, p, ops, i)
	wire := captureWire(p, &rp)
	rp.Kind = 1
	r := parseRaw(wire)
	if r == nil {
		r = &rawReq{method: "GET", target: "/", proto: "HTTP/1.1", hdr: [][2]string{{"Host", "sim.local"}}}
	}
	r.hdr = append(r.hdr, [2]string{"X-Verif-Tag", rp.Tag})
	path, _ := splitTarget(r.target)
	switch t.Choose(3, "special") {
	case 0:
		// spec file: strip the operation's own template depth and append the spec name
		depth := strings.Count(strings.TrimSuffix(p.Ops[rp.Op].Path, "/"), "/")
		segs := strings.Split(path, "/")
		if len(segs)-depth >= 1 {
			segs = segs[:len(segs)-depth]
		}
		if strings.HasSuffix(p.Ops[rp.Op].Path, "/") && len(segs) > 1 {
			segs = segs[:len(segs)-1]
		}
		r.method, r.target, r.body = "GET", strings.Join(segs, "/")+"/openapi.yaml", nil
		rp.RawDesc = []string{"spec file request " + r.target}
		switch t.Choose(4, "spec-request-form") {
		case 1:
			r.method = "HEAD"
			rp.RawDesc = append(rp.RawDesc, "HEAD")
		case 2:
			a := t.Choose(400, "range-from")
			rg := fmt.Sprintf("bytes=%d-%d", a, a+1+t.Choose(200, "range-len"))
			r.hdr = append(r.hdr, [2]string{"Range", rg})
			rp.RawDesc = append(rp.RawDesc, "Range: "+rg)
		case 3:
			r.hdr = append(r.hdr, [2]string{"If-None-Match", `"x"`}, [2]string{"Accept-Encoding", "gzip"})
			rp.RawDesc = append(rp.RawDesc, "conditional + gzip")
		}
	case 1:
		r.target = path + "/definitely/not/declared"
		rp.RawDesc = []string{"not-found request"}
	case 2:
		r.method, r.body = "OPTIONS", nil
		r.hdr = append(r.hdr, [2]string{"Access-Control-Request-Method", "GET"}, [2]string{"Origin", "http://o.example"})
		rp.RawDesc = []string{"CORS preflight"}
	}
	rp.Raw = r.bytes()
	return rp
}

// ---- shared summarising helpers ----------------------------------------------------------------------------

func summarise(res *harness.RunResult) []string {
	var out []string
	tags := append([]string(nil), res.Order...)
	sort.Strings(tags)
	for _, tag := range tags {
		o := res.Obs[tag]
		out = append(out, tag, fmt.Sprint(hash64(string(o.WireReq))), o.ClientType, fmt.Sprint(hash64(o.ClientRet)), o.ClientErr)
		for _, d := range o.Deliveries {
			out = append(out, d.Handler, d.ParseErr, fmt.Sprint(hash64(d.Params)), fmt.Sprint(d.Status), fmt.Sprint(hash64(string(d.RespWire))), strings.Join(d.Trace, ";"), d.Panic)
		}
	}
	return out
}

func describeFaults(f sim.Faults) string {
	var parts []string
	add := func(c bool, s string) {
		if c {
			parts = append(parts, s)
		}
	}
	add(f.ReqCutMode != 0, fmt.Sprintf("request cut mode %d", f.ReqCutMode))
	add(f.RespCutMode != 0, fmt.Sprintf("response cut mode %d", f.RespCutMode))
	add(f.ReqReset, "request reset")
	add(f.RespTruncate, "response truncated")
	add(f.Dup, "duplicate delivery")
	add(f.Intermediary != 0, "intermediary substitution")
	add(f.WriterFail, "response writer fails")
	add(f.CancelBefore, "ctx cancelled before send")
	add(f.SrvCancelStep != 0, fmt.Sprintf("server ctx cancelled at own step %d", f.SrvCancelStep))
	add(f.RawRespFail, "raw response body source fails")
	if len(parts) == 0 {
		return "no faults"
	}
	return strings.Join(parts, ", ")
}

func traceOf(p *harness.Pkg, plan *harness.RunPlan, res *harness.RunResult) []string {
	var tr []string
	tr = append(tr, fmt.Sprintf("package %s; strategy=%d site_pct=%d middlewares=%d; %d scheduler steps, %d context switches", p.Name, plan.Strategy, plan.SitePct, plan.Middlewares, res.Steps, res.Switches))
	for i := range plan.Reqs {
		rp := &plan.Reqs[i]
		o := res.Obs[rp.Tag]
		if rp.Kind == 0 {
			tr = append(tr, fmt.Sprintf("%s: %s via client (value level %d, seed %d); %s", rp.Tag, p.Ops[rp.Op].Name, rp.Level, rp.ValueSeed, describeFaults(rp.Faults)))
			tr = append(tr, "  sent: "+clipStr(o.Sent, 600))
		} else {
			tr = append(tr, fmt.Sprintf("%s: raw request %v; %s", rp.Tag, rp.RawDesc, describeFaults(rp.Faults)))
		}
		if len(o.WireReq) > 0 {
			tr = append(tr, "  wire: "+strconv.Quote(clipStr(string(o.WireReq), 400)))
		}
		for di, d := range o.Deliveries {
			tr = append(tr, fmt.Sprintf("  delivery %d: readErr=%q handler=%q parseErr=%q status=%d superfluous=%d panic=%q trace=%v", di, d.ReadErr, d.Handler, d.ParseErr, d.Status, d.Superfluous, clipStr(d.Panic+d.ParsePanic, 200), d.Trace))
			if d.Params != "" && d.Params != o.Sent {
				tr = append(tr, "    parsed: "+clipStr(d.Params, 600))
			}
		}
		if rp.Kind == 0 {
			tr = append(tr, fmt.Sprintf("  planned response: %s %s", o.PlannedType, clipStr(o.Planned, 400)))
			tr = append(tr, fmt.Sprintf("  client returned: %s %s err=%q", o.ClientType, clipStr(o.ClientRet, 400), clipStr(o.ClientErr, 300)))
		}
	}
	return tr
}
