// Command rtsim is the simulation worker for the generated packages (C09, C10, C14, C20).
package main

import (
	"encoding/json"
	"fmt"
	"hash/fnv"
	"os"
	"path/filepath"
	"runtime"
	"sort"
	"strings"
	"sync"
	"time"

	"verifsim/harness"
	"verifsim/sim"
	"verifsim/tape"
)

type Job struct {
	Mode     string   `json:"mode"` // c09 c10 c14 c20 replay det
	Property string   `json:"property"`
	Seed     uint64   `json:"seed"`
	Worker   int      `json:"worker"`
	Workers  int      `json:"workers"`
	BudgetS  float64  `json:"budget_s"`
	MaxRuns  int      `json:"max_runs"`
	RunFrom  int      `json:"run_from"`
	ShrinkS  float64  `json:"shrink_s"`
	Out      string   `json:"out"`
	Replay   *Replay  `json:"replay,omitempty"`
	Thorough bool     `json:"thorough"`
	OnlyPkgs []string `json:"only_pkgs,omitempty"`
	Det      bool     `json:"det"` // determinism mode: no time-dependent behaviour
}

type Replay struct {
	Property   string          `json:"property"`
	FindingKey string          `json:"finding_key"`
	Seed       uint64          `json:"seed"`
	Run        int             `json:"run"`
	Pkg        string          `json:"pkg"`
	Spec       string          `json:"spec"`
	Tape       []uint32        `json:"tape"`
	Plan       json.RawMessage `json:"plan,omitempty"` // informational: the decoded plan
	Trace      []string        `json:"trace"`
	Observed   string          `json:"observed"`
	Expected   string          `json:"expected"`
}

type Violation struct {
	Key    string `json:"key"`
	Replay Replay `json:"replay"`
}

type Result struct {
	Mode       string            `json:"mode"`
	Worker     int               `json:"worker"`
	Runs       int               `json:"runs"`
	Requests   int               `json:"requests"`
	Steps      int               `json:"steps"`
	WallS      float64           `json:"wall_s"`
	Violations []Violation       `json:"violations"`
	Counters   map[string]int    `json:"counters"`
	Probes     map[string]int    `json:"probes"`
	Distinct   []uint64          `json:"distinct"`
	Pairs      []uint64          `json:"pairs"`
	Samples    []json.RawMessage `json:"samples"`
	LogHash    string            `json:"log_hash"`
	Notes      []string          `json:"notes"`
	HarnessErr string            `json:"harness_error"`
	ReplayKey  string            `json:"replay_key"`
	PkgsUsed   map[string]int    `json:"pkgs_used"`
	OpsSkipped map[string]string `json:"ops_skipped"`
}

func fatal(err error) {
	fmt.Fprintln(os.Stderr, "rtsim: harness error:", err)
	os.Exit(2)
}

// watch is what the wall-clock watchdog needs to know about the run in progress.
var watch struct {
	mu      sync.Mutex
	started time.Time
	prop    string
	run     int
	pkg     *harness.Pkg
	tape    *tape.Tape
	active  bool
}

func (w *worker) startWatchdog(limit time.Duration) {
	go func() {
		for {
			time.Sleep(500 * time.Millisecond)
			watch.mu.Lock()
			hung := watch.active && time.Since(watch.started) > limit
			prop, run, pkg, tp := watch.prop, watch.run, watch.pkg, watch.tape
			watch.mu.Unlock()
			if !hung {
				continue
			}
			// a task is spinning without ever reaching a seam: report and leave (the goroutine cannot be stopped)
			if dir := os.Getenv("VERIF_HANG_DUMP"); dir != "" {
				buf := make([]byte, 1<<22)
				buf = buf[:runtime.Stack(buf, true)]
				os.WriteFile(filepath.Join(dir, fmt.Sprintf("hang-%d.stacks", run)), buf, 0o644)
			}
			res := w.res
			key := "stall:wall-clock-hang"
			if w.job.Mode == "replay" {
				res.ReplayKey = key
				res.Notes = append(res.Notes, fmt.Sprintf("run did not finish within %s of wall-clock time: a task never returned to a scheduler seam (infinite loop?)", limit))
			} else if prop == "C14" || prop == "C20" {
				rec := append([]uint32(nil), tp.Rec...)
				res.Violations = append(res.Violations, Violation{Key: key, Replay: Replay{Property: prop, FindingKey: key, Seed: w.job.Seed, Run: run, Pkg: pkg.Name, Spec: pkg.Spec, Tape: rec,
					Trace:    []string{"the tape holds the choices made until the hang; the remaining choices are 0 (keep running the current task)"},
					Observed: fmt.Sprintf("run did not finish within %s of wall-clock time: a task never returned to a scheduler seam (it spins, or it waits on a real lock that a parked task holds - two requests sharing one body or buffer)", limit),
					Expected: "every task terminates or reaches a seam"}})
				res.Notes = append(res.Notes, "worker stopped after a hang; its remaining run indices were not executed")
			} else {
				res.HarnessErr = fmt.Sprintf("run %d (pkg %s) hung for %s", run, pkg.Name, limit)
			}
			res.LogHash = "hang"
			ob, _ := json.Marshal(res)
			os.WriteFile(w.job.Out, ob, 0o644)
			os.Exit(0)
		}
	}()
}

var dbgLines []string

type worker struct {
	job      *Job
	res      *Result
	pkgs     []*harness.Pkg
	distinct map[uint64]bool
	pairs    map[uint64]struct{}
	logH     uint64
	found    map[string]bool
	deadline time.Time
}

func hash64(parts ...string) uint64 {
	h := fnv.New64a()
	for _, p := range parts {
		h.Write([]byte(p))
		h.Write([]byte{0})
	}
	return h.Sum64()
}

func main() {
	if len(os.Args) != 2 {
		fatal(fmt.Errorf("usage: rtsim job.json"))
	}
	b, err := os.ReadFile(os.Args[1])
	if err != nil {
		fatal(err)
	}
	var job Job
	if err := json.Unmarshal(b, &job); err != nil {
		fatal(err)
	}
	start := time.Now()
	w := &worker{job: &job, res: &Result{Mode: job.Mode, Worker: job.Worker, Counters: map[string]int{}, Probes: map[string]int{}, PkgsUsed: map[string]int{}, OpsSkipped: map[string]string{}},
		distinct: map[uint64]bool{}, pairs: map[uint64]struct{}{}, found: map[string]bool{}}
	w.deadline = start.Add(time.Duration(job.BudgetS * float64(time.Second)))
	only := map[string]bool{}
	for _, n := range job.OnlyPkgs {
		only[n] = true
	}
	for _, p := range harness.Packages {
		if len(only) > 0 && !only[p.Name] {
			continue
		}
		if len(p.Ops) == 0 {
			continue
		}
		w.pkgs = append(w.pkgs, p)
	}
	sort.Slice(w.pkgs, func(i, j int) bool { return w.pkgs[i].Name < w.pkgs[j].Name })
	harness.PairSink = func(m map[uint64]struct{}) {
		for k := range m {
			w.pairs[k] = struct{}{}
		}
	}
	w.startWatchdog(45 * time.Second)
	if job.Mode == "replay" {
		w.replay()
	} else {
		if len(w.pkgs) == 0 {
			fatal(fmt.Errorf("no usable generated packages registered"))
		}
		w.loop()
	}
	res := w.res
	for h := range w.distinct {
		res.Distinct = append(res.Distinct, h)
	}
	for h := range w.pairs {
		res.Pairs = append(res.Pairs, h)
	}
	res.LogHash = fmt.Sprintf("%016x", w.logH)
	res.WallS = time.Since(start).Seconds()
	ob, _ := json.Marshal(res)
	if err := os.WriteFile(job.Out, ob, 0o644); err != nil {
		fatal(err)
	}
}

func (w *worker) pkgByName(n string) *harness.Pkg {
	for _, p := range harness.Packages {
		if p.Name == n {
			return p
		}
	}
	return nil
}

// oneRun decodes a plan from the tape, executes it and judges it.
func (w *worker) oneRun(prop string, run int, t *tape.Tape, forcePkg string, logOn bool) *verdict {
	var p *harness.Pkg
	if forcePkg != "" {
		p = w.pkgByName(forcePkg)
		if p == nil {
			fatal(fmt.Errorf("replay: package %q is not in this build", forcePkg))
		}
	} else {
		// the package is chosen by the run index, not the tape, so that replay files carry it explicitly
		pt := tape.NewGen(w.job.Seed, prop+"-pkg", uint64(run))
		p = w.pkgs[pt.Choose(len(w.pkgs), "pkg")]
	}
	watch.mu.Lock()
	watch.started, watch.prop, watch.run, watch.pkg, watch.tape, watch.active = time.Now(), prop, run, p, t, true
	watch.mu.Unlock()
	defer func() { watch.mu.Lock(); watch.active = false; watch.mu.Unlock() }()
	switch prop {
	case "C09":
		return w.runC09(p, t, logOn)
	case "C10":
		return w.runC10(p, t, logOn)
	case "C14":
		return w.runC14(p, t, logOn)
	case "C20":
		return w.runC20(p, t, logOn)
	}
	fatal(fmt.Errorf("unknown property %q", prop))
	return nil
}

type verdict struct {
	pkg         *harness.Pkg
	plan        *harness.RunPlan
	violated    bool
	key         string
	observed    string
	expected    string
	trace       []string
	logParts    []string
	nontrivial  bool
	distinctKey string
	requests    int
	steps       int
	probes      map[string]int
	counters    map[string]int
	harnessErr  string
	sample      map[string]any
}

func (w *worker) loop() {
	job, res := w.job, w.res
	prop := job.Property
	for run := job.RunFrom + job.Worker; job.MaxRuns == 0 || run < job.RunFrom+job.MaxRuns; run += job.Workers {
		if job.BudgetS > 0 && !job.Det && time.Now().After(w.deadline) {
			res.Counters["stopped_by_budget"]++
			break
		}
		t := tape.NewGen(job.Seed, prop, uint64(run))
		if os.Getenv("VERIF_DUMP_LOG") != "" && sim.Debug == nil {
			sim.Debug = func(l string) { dbgLines = append(dbgLines, l) }
		}
		v := w.oneRun(prop, run, t, "", false)
		if v.harnessErr != "" {
			res.HarnessErr = fmt.Sprintf("run %d (pkg %s): %s", run, v.pkg.Name, v.harnessErr)
			return
		}
		res.Runs++
		res.Requests += v.requests
		res.Steps += v.steps
		res.PkgsUsed[v.pkg.Name]++
		for k, n := range v.probes {
			res.Probes[k] += n
		}
		for k, n := range v.counters {
			res.Counters[k] += n
		}
		if v.nontrivial {
			w.distinct[hash64(v.pkg.Name, v.distinctKey)] = true
		}
		w.logH = hash64(fmt.Sprint(w.logH), fmt.Sprint(run), fmt.Sprint(t.Rec), strings.Join(v.logParts, "|"), v.key)
		if dir := os.Getenv("VERIF_DUMP_LOG"); dir != "" {
			os.WriteFile(filepath.Join(dir, fmt.Sprintf("run-%d.sched", run)), []byte(strings.Join(dbgLines, "\n")+"\n"), 0o644)
			dbgLines = dbgLines[:0]
			os.WriteFile(filepath.Join(dir, fmt.Sprintf("run-%d.log", run)), []byte(fmt.Sprint(t.Rec)+"\n"+strings.Join(v.logParts, "\n")+"\n"+v.key+"\n"+fmt.Sprint(v.probes)+"\n"+strings.Join(v.trace, "\n")+"\n"), 0o644)
		}
		if v.sample != nil && len(res.Samples) < 3 {
			v.sample["run"] = run
			sb, _ := json.Marshal(v.sample)
			res.Samples = append(res.Samples, sb)
		}
		if !v.violated {
			continue
		}
		res.Counters["violating_runs"]++
		if w.found[v.key] {
			res.Counters["duplicate_violations"]++
			if harness.LeakedTotal > 300 {
				res.Notes = append(res.Notes, "worker stopped: the generated code left goroutines blocked for ever in too many runs")
				break
			}
			continue
		}
		w.shrinkAndRecord(prop, run, v, t.Rec)
		if res.HarnessErr != "" || len(w.found) > 12 {
			break
		}
		if harness.LeakedTotal > 300 {
			res.Notes = append(res.Notes, "worker stopped: the generated code left goroutines blocked for ever in too many runs (each one slows every later goroutine dump)")
			break
		}
	}
}

func (w *worker) shrinkAndRecord(prop string, run int, v *verdict, rec []uint32) {
	res := w.res
	pkg := v.pkg.Name
	key := v.key
	again := w.oneRun(prop, run, tape.NewReplay(rec), pkg, false)
	if !again.violated || again.key != key {
		res.HarnessErr = fmt.Sprintf("run %d: violation %q did not reproduce from its recorded tape (got %q)", run, key, again.key)
		return
	}
	budget := time.Duration(w.job.ShrinkS * float64(time.Second))
	if budget == 0 {
		budget = 20 * time.Second
	}
	min := rec
	if !w.job.Det {
		min = tape.Shrink(rec, func(vals []uint32) bool {
			x := w.oneRun(prop, run, tape.NewReplay(vals), pkg, false)
			return x.harnessErr == "" && x.violated && x.key == key
		}, budget)
	}
	final := w.oneRun(prop, run, tape.NewReplay(min), pkg, true)
	if !final.violated || final.key != key {
		res.HarnessErr = "shrink lost the violation " + key
		return
	}
	w.found[key] = true
	pb, _ := json.Marshal(final.plan)
	res.Violations = append(res.Violations, Violation{Key: key, Replay: Replay{Property: prop, FindingKey: key, Seed: w.job.Seed, Run: run, Pkg: pkg, Spec: v.pkg.Spec,
		Tape: min, Plan: pb, Trace: final.trace, Observed: final.observed, Expected: final.expected}})
}

func (w *worker) replay() {
	rp := w.job.Replay
	if rp == nil {
		fatal(fmt.Errorf("no replay"))
	}
	v := w.oneRun(rp.Property, rp.Run, tape.NewReplay(rp.Tape), rp.Pkg, true)
	w.res.Runs = 1
	if v.harnessErr != "" {
		w.res.HarnessErr = v.harnessErr
		return
	}
	if v.violated {
		w.res.ReplayKey = v.key
		w.res.Notes = append(w.res.Notes, v.observed)
		w.res.Notes = append(w.res.Notes, v.trace...)
	}
}
