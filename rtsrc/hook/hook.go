// Package hook is what the instrumented generated packages call: statement-level
// yields, map iteration pinned to sorted order, and simulator-aware mutexes.
package hook

import (
	"fmt"
	"reflect"
	"sort"
	"sync"
)

// YieldFn is installed by the scheduler; nil = yields are no-ops.
var YieldFn func(pkg, site int)

// BlockFn parks the calling task until ready() is true (used by the mutex shims).
var BlockFn func(what string, ready func() bool)

// LockEvent is told about lock acquisition/release by the current task (l identifies the lock).
var LockEvent func(l any, delta int)

// AccFn is told about the memory accesses of the generated code to locations that more than one task can reach
// (the in-simulator happens-before race detector). keep holds the object alive, so that its address is not
// reused within the run; isMap: the location is "the elements of this map".
var AccFn func(pkg, site int, keep any, addr, size uintptr, label string, write, isMap bool)

func acc(pkg, site int, f func() any, label string, write, isMap bool) {
	fn := AccFn
	if fn == nil {
		return
	}
	defer func() { recover() }() // a nil pointer or an index out of range on the way: the statement will meet it itself
	p := f()
	v := reflect.ValueOf(p)
	if !v.IsValid() {
		return
	}
	if isMap {
		if v.Kind() != reflect.Map || v.IsNil() {
			return
		}
		fn(pkg, site, p, v.Pointer(), 1, label, write, true)
		return
	}
	if v.Kind() != reflect.Pointer || v.IsNil() {
		return
	}
	fn(pkg, site, p, v.Pointer(), v.Type().Elem().Size(), label, write, false)
}

func RA(pkg, site int, f func() any, label string) { acc(pkg, site, f, label, false, false) }
func WA(pkg, site int, f func() any, label string) { acc(pkg, site, f, label, true, false) }
func RM(pkg, site int, f func() any, label string) { acc(pkg, site, f, label, false, true) }
func WM(pkg, site int, f func() any, label string) { acc(pkg, site, f, label, true, true) }

// PoolEvent: Put(x) happens before the Get that returns x.
var PoolEvent func(p any, put bool)

func Y(pkg, site int) {
	if f := YieldFn; f != nil {
		f(pkg, site)
	}
}

func less(a, b any) bool {
	switch x := a.(type) {
	case string:
		return x < b.(string)
	case int:
		return x < b.(int)
	case int64:
		return x < b.(int64)
	case int32:
		return x < b.(int32)
	case uint64:
		return x < b.(uint64)
	case float64:
		return x < b.(float64)
	}
	return fmt.Sprintf("%#v", a) < fmt.Sprintf("%#v", b)
}

// Keys returns the keys of m in sorted order: inside rtsim the runtime's random
// map order would leak into wire bytes and event logs and break replay.
func Keys[M ~map[K]V, K comparable, V any](site int, m M) []K {
	keys := make([]K, 0, len(m))
	for k := range m {
		keys = append(keys, k)
	}
	sort.SliceStable(keys, func(i, j int) bool { return less(any(keys[i]), any(keys[j])) })
	return keys
}

func ZeroKV[M ~map[K]V, K comparable, V any](m M) (k K, v V) { return }

func lockLoop(what string, l any, try func() bool) {
	if try() {
		if LockEvent != nil {
			LockEvent(l, +1)
		}
		return
	}
	if BlockFn == nil {
		panic("hook: contended lock outside the simulator: " + what)
	}
	BlockFn(what, try) // returns once try() succeeded (evaluated by the scheduler while every task is parked)
	if LockEvent != nil {
		LockEvent(l, +1)
	}
}

func unlocked(l any) {
	if LockEvent != nil {
		LockEvent(l, -1)
	}
}

func MuLock(m *sync.Mutex)      { lockLoop("Mutex.Lock", m, m.TryLock) }
func MuUnlock(m *sync.Mutex)    { unlocked(m); m.Unlock() }
func RWLock(m *sync.RWMutex)    { lockLoop("RWMutex.Lock", m, m.TryLock) }
func RWUnlock(m *sync.RWMutex)  { unlocked(m); m.Unlock() }
func RWRLock(m *sync.RWMutex)   { lockLoop("RWMutex.RLock", m, m.TryRLock) }
func RWRUnlock(m *sync.RWMutex) { unlocked(m); m.RUnlock() }

// ---- sync.Pool ---------------------------------------------------------------------------------

// SeamFn yields at a simulator seam that is not a statement boundary (pool hand-over).
var SeamFn func(what string)

var pools = map[*sync.Pool][]any{}

// ResetPools forgets every pooled object (start of a run).
func ResetPools() { pools = map[*sync.Pool][]any{} }

// PoolGet / PoolPut replace sync.Pool's methods by a LIFO free list - a legal Pool behaviour -
// with a yield before Get and after Put, so that "object still in use after Put" can be
// interleaved with the next Get even when the Put is a deferred call.
func PoolGet(p *sync.Pool) any {
	if f := SeamFn; f != nil {
		f("pool.Get")
	}
	if l := pools[p]; len(l) > 0 {
		x := l[len(l)-1]
		pools[p] = l[:len(l)-1]
		if f := PoolEvent; f != nil {
			f(p, false)
		}
		return x
	}
	if p.New != nil {
		return p.New()
	}
	return nil
}

func PoolPut(p *sync.Pool, x any) {
	pools[p] = append(pools[p], x)
	if f := PoolEvent; f != nil {
		f(p, true)
	}
	if f := SeamFn; f != nil {
		f("pool.Put")
	}
}

// ---- goroutines, channels and selects of the generated code itself ---------------------------------------

var (
	GoFn          func(fn func())
	PreFn         func()
	PostFn        func()
	SelectOrderFn func(n int) []int
)

// GoRun replaces a `go f(a, b)` statement: f and its arguments have been evaluated by the caller, as the go
// statement would have; the call itself runs as a task of the simulator.
func GoRun(f any, args ...any) {
	call := func() {
		if fn, ok := f.(func()); ok && len(args) == 0 {
			fn()
			return
		}
		fv := reflect.ValueOf(f)
		ft := fv.Type()
		in := make([]reflect.Value, len(args))
		for i, a := range args {
			var pt reflect.Type
			if ft.IsVariadic() && i >= ft.NumIn()-1 {
				pt = ft.In(ft.NumIn() - 1).Elem()
			} else {
				pt = ft.In(i)
			}
			v := reflect.ValueOf(a)
			switch {
			case !v.IsValid():
				v = reflect.Zero(pt)
			case !v.Type().AssignableTo(pt) && v.Type().ConvertibleTo(pt):
				v = v.Convert(pt)
			}
			in[i] = v
		}
		fv.Call(in)
	}
	if g := GoFn; g != nil {
		g(call)
		return
	}
	go call()
}

// Pre / Post bracket a statement that may block on another goroutine (channel operation, WaitGroup.Wait, ...).
func Pre() {
	if f := PreFn; f != nil {
		f()
	}
}
func Post() {
	if f := PostFn; f != nil {
		f()
	}
}

// Woke: the call before may have woken a goroutine that was blocked in a real operation.
var WokeFn func()

func Woke() {
	if f := WokeFn; f != nil {
		f()
	}
}

// Select performs the communication of a rewritten select statement (see internal/instr/genconc.go): ready cases are
// tried one by one, non-blocking, in an order drawn from the tape; if none is ready the result is -1 when the
// statement has a default clause, otherwise one real select over all cases blocks until one can proceed.
func Select(hasDefault bool, cases ...reflect.SelectCase) (int, any, bool) {
	order := selectOrder(len(cases))
	for _, i := range order {
		if chosen, recv, ok := reflect.Select([]reflect.SelectCase{cases[i], {Dir: reflect.SelectDefault}}); chosen == 0 {
			return i, ifaceOf(recv), ok
		}
	}
	if hasDefault {
		return -1, nil, false
	}
	i, recv, ok := reflect.Select(cases)
	return i, ifaceOf(recv), ok
}

func ifaceOf(v reflect.Value) any {
	if !v.IsValid() || !v.CanInterface() {
		return nil
	}
	return v.Interface()
}

func CaseRecv[T any](ch <-chan T) reflect.SelectCase {
	return reflect.SelectCase{Dir: reflect.SelectRecv, Chan: reflect.ValueOf(ch)}
}

func CaseSend[T any](ch chan<- T, x T) reflect.SelectCase {
	return reflect.SelectCase{Dir: reflect.SelectSend, Chan: reflect.ValueOf(ch), Send: reflect.ValueOf(&x).Elem()}
}

// Val gives the received value its static type back.
func Val[T any](ch <-chan T, v any) T {
	if t, ok := v.(T); ok {
		return t
	}
	var z T
	return z
}

func selectOrder(n int) []int {
	if f := SelectOrderFn; f != nil {
		return f(n)
	}
	order := make([]int, n)
	for i := range order {
		order[i] = i
	}
	return order
}
