// Package values builds and compares values of the generated Go types by
// reflection, independently of goag's own codecs.
package values

import (
	"bytes"
	"encoding/hex"
	"encoding/json"
	"errors"
	"fmt"
	"io"
	"math"
	"math/rand/v2"
	"reflect"
	"sort"
	"strconv"
	"strings"
	"time"
	"unicode/utf8"
)

// TagReader is the harness's raw body: content known up front, optional failure point.
type TagReader struct {
	Data      []byte
	pos       int
	FailAfter int    // -1 none: Read fails after this many bytes
	Err       string // set on values reconstructed from a stream that ended in an error
	Closed    int
	OnRead    func()
	OnFail    func()
	failed    bool
	// EOFWithData makes the final Read return its bytes together with io.EOF (legal for an io.Reader;
	// http response bodies with a known length and iotest.DataErrReader behave like this).
	EOFWithData bool
}

var ErrRawBody = errors.New("raw body source failed (simulated)")

func NewReader(b []byte) *TagReader { return &TagReader{Data: b, FailAfter: -1} }

func (r *TagReader) Read(p []byte) (int, error) {
	if r.OnRead != nil {
		r.OnRead()
	}
	if len(p) == 0 {
		return 0, nil
	}
	end := len(r.Data)
	if r.FailAfter >= 0 && r.FailAfter < end {
		end = r.FailAfter
	}
	if r.pos >= end {
		if r.FailAfter >= 0 && r.FailAfter < len(r.Data) {
			if !r.failed && r.OnFail != nil {
				r.failed = true
				r.OnFail()
			}
			return 0, ErrRawBody
		}
		return 0, io.EOF
	}
	// deliver in modest pieces so that io.Copy loops more than once
	max := end - r.pos
	if max > 1500 {
		max = 1500
	}
	n := copy(p, r.Data[r.pos:r.pos+max])
	r.pos += n
	if r.EOFWithData && r.pos >= len(r.Data) && (r.FailAfter < 0 || r.FailAfter >= len(r.Data)) {
		return n, io.EOF
	}
	return n, nil
}

func (r *TagReader) Close() error { r.Closed++; return nil }

var (
	timeType   = reflect.TypeOf(time.Time{})
	readerType = reflect.TypeOf((*io.Reader)(nil)).Elem()
	rawMsgType = reflect.TypeOf(json.RawMessage(nil))
	errorType  = reflect.TypeOf((*error)(nil)).Elem()
)

type DiscrInfo struct {
	Prop string     // JSON property name
	Keys [][]string // per oneOf index: discriminator values selecting that variant
}

func norm(s string) string {
	return strings.Map(func(c rune) rune {
		switch {
		case c >= 'a' && c <= 'z', c >= '0' && c <= '9':
			return c
		case c >= 'A' && c <= 'Z':
			return c + 32
		}
		return -1
	}, s)
}

// Loc is where a value travels; it selects the string alphabet (domain restrictions of DESIGN §11).
type Loc int

const (
	LocBody Loc = iota
	LocQuery
	LocPath
	LocHeader
)

type Gen struct {
	R     *rand.Rand
	Tag   string
	Level int // 0 simple, 1 boundary-heavy, 2 wild
	OneOf map[string]bool
	// Discr: oneOf Go type name -> discriminator info (domain restriction: the discriminator
	// property of a variant value must carry a value that selects that variant).
	Discr       map[string]*DiscrInfo
	Unsupported []string
	MaxRaw      int
	depth       int
	// SetAll forces every Maybe/Nullable to be set (used to reach secured operations).
	SetAll bool
	// EmptySlices allows empty and nil slices outside bodies too (response header arrays: the handler decides),
	// and NaN / infinite floats (a handler result that cannot be encoded).
	EmptySlices bool
	// NoEmptyStrings avoids empty string values (wire-validity oracle restriction).
	NoEmptyStrings bool
	// BadFloats: every third float is NaN or infinite (a handler result whose JSON body cannot be encoded).
	BadFloats bool
}

func isMaybe(t reflect.Type) (string, bool) {
	if t.Kind() != reflect.Struct || t.NumField() != 2 {
		return "", false
	}
	if t.Field(0).Name != "IsSet" || t.Field(0).Type.Kind() != reflect.Bool || t.Field(1).Name != "Value" {
		return "", false
	}
	n := t.Name()
	switch {
	case strings.HasPrefix(n, "Maybe["):
		return "maybe", true
	case strings.HasPrefix(n, "Nullable["):
		return "nullable", true
	}
	return "opt", true
}

var asciiWords = []string{"a", "abc", "hello", "x1", "Zeta", "q"}
var reserved = []string{"?", "#", "%", "&", "=", "+", ";", ",", " ", "%20", "%2F", "@", ":", "$", "!", "*", "'", "(", ")", "[", "]", "~", "\"", "\\", "<", ">", "{", "}", "|", "^", "`"}
var unicodeBits = []string{"é", "ß", "日本", "😀", "ı", "Ω", " ", " "}

func (g *Gen) str(loc Loc) string {
	r := g.R
	var b strings.Builder
	tagIt := r.IntN(3) != 0
	switch {
	case g.Level == 0:
		b.WriteString(asciiWords[r.IntN(len(asciiWords))])
	default:
		n := r.IntN(5)
		if r.IntN(12) == 0 && loc != LocPath && !g.NoEmptyStrings {
			return "" // empty string
		}
		for i := 0; i <= n; i++ {
			switch r.IntN(4) {
			case 0:
				b.WriteString(asciiWords[r.IntN(len(asciiWords))])
			case 1:
				b.WriteString(reserved[r.IntN(len(reserved))])
			case 2:
				b.WriteString(unicodeBits[r.IntN(len(unicodeBits))])
			case 3:
				b.WriteString(strconv.Itoa(r.IntN(1000)))
			}
		}
		if g.Level >= 2 && r.IntN(40) == 0 {
			b.WriteString(strings.Repeat("L", 8192))
		}
		if loc == LocBody && r.IntN(6) == 0 {
			b.WriteString([]string{"\n", "\t", "\r\n", "\x00", "\x7f", "\u0001"}[r.IntN(6)])
		}
	}
	if tagIt {
		b.WriteString("-" + g.Tag)
	}
	s := b.String()
	switch loc {
	case LocPath:
		s = strings.ReplaceAll(s, "/", "_")
		s = strings.ReplaceAll(s, "%2F", "_")
		if s == "" || s == "." || s == ".." {
			s = "p" + g.Tag
		}
	case LocHeader:
		s = strings.Map(func(c rune) rune {
			if c < 0x20 || c == 0x7f {
				return -1
			}
			return c
		}, s)
		s = strings.TrimFunc(s, func(c rune) bool { return c == ' ' || c == '\t' || c == ' ' || c == ' ' })
		s = strings.Trim(s, " \t")
	}
	if !utf8.ValidString(s) {
		s = strings.ToValidUTF8(s, "_")
	}
	if s == "" && g.NoEmptyStrings {
		s = "v" + g.Tag
	}
	return s
}

func (g *Gen) int64n(bits int) int64 {
	r := g.R
	min, max := int64(math.MinInt64), int64(math.MaxInt64)
	switch bits {
	case 8:
		min, max = math.MinInt8, math.MaxInt8
	case 16:
		min, max = math.MinInt16, math.MaxInt16
	case 32:
		min, max = math.MinInt32, math.MaxInt32
	}
	if g.Level == 0 {
		return int64(r.IntN(100))
	}
	switch r.IntN(7) {
	case 0:
		return 0
	case 1:
		return 1
	case 2:
		return -1
	case 3:
		return min
	case 4:
		return max
	}
	v := int64(r.Uint64())
	if bits < 64 {
		v = v % (max + 1)
	}
	return v
}

func (g *Gen) float(bits int) float64 {
	r := g.R
	if g.BadFloats && r.IntN(3) == 0 {
		return []float64{math.NaN(), math.Inf(1), math.Inf(-1)}[r.IntN(3)]
	}
	if g.EmptySlices && r.IntN(10) == 0 {
		// what only a handler can produce: a number JSON cannot carry (the response cannot be encoded)
		return []float64{math.NaN(), math.Inf(1), math.Inf(-1)}[r.IntN(3)]
	}
	if g.Level == 0 {
		return float64(r.IntN(1000)) / 4
	}
	var v float64
	switch r.IntN(9) {
	case 0:
		v = 0
	case 1:
		v = math.Copysign(0, -1)
	case 2:
		v = math.SmallestNonzeroFloat64
		if bits == 32 {
			v = math.SmallestNonzeroFloat32
		}
	case 3:
		v = math.MaxFloat64
		if bits == 32 {
			v = math.MaxFloat32
		}
	case 4:
		v = 1e21
	case 5:
		v = 0.1
	case 6:
		v = -123456789.125
	default:
		v = (r.Float64() - 0.5) * math.Pow(10, float64(r.IntN(40)-20))
	}
	if bits == 32 {
		v = float64(float32(v))
	}
	return v
}

func (g *Gen) time() time.Time {
	r := g.R
	if g.Level == 0 {
		return time.Date(2020+r.IntN(5), time.Month(1+r.IntN(12)), 1+r.IntN(28), r.IntN(24), r.IntN(60), r.IntN(60), 0, time.UTC)
	}
	switch r.IntN(6) {
	case 0:
		return time.Unix(0, 0).UTC()
	case 1:
		return time.Date(2024, 2, 29, 23, 59, 59, 999999999, time.FixedZone("", 14*3600))
	case 2:
		return time.Date(1999, 12, 31, 0, 0, 0, 1, time.FixedZone("", -12*3600))
	case 3:
		return time.Date(9999, 12, 31, 23, 59, 59, 0, time.UTC)
	case 4:
		return time.Date(2021, 6, 15, 12, 30, 45, 123456789, time.FixedZone("", 5*3600+30*60))
	}
	return time.Unix(r.Int64N(4e9), r.Int64N(1e9)).In(time.FixedZone("", (r.IntN(27)-12)*3600))
}

func (g *Gen) anyJSON(d int) any {
	r := g.R
	k := r.IntN(6)
	if d > 2 {
		k = r.IntN(3)
	}
	switch k {
	case 0:
		return g.str(LocBody)
	case 1:
		return float64(g.int64n(32))
	case 2:
		return r.IntN(2) == 0
	case 3:
		m := map[string]any{}
		for i := r.IntN(3); i >= 0; i-- {
			m["k"+strconv.Itoa(i)+g.Tag] = g.anyJSON(d + 1)
		}
		return m
	case 4:
		a := []any{}
		for i := r.IntN(3); i > 0; i-- {
			a = append(a, g.anyJSON(d+1))
		}
		return a
	}
	return g.float(64)
}

func (g *Gen) RawBody() []byte {
	r := g.R
	max := g.MaxRaw
	if max == 0 {
		max = 128 << 10
	}
	var n int
	switch r.IntN(8) {
	case 0:
		n = 0
	case 1:
		n = 1
	case 2:
		n = 4095 + r.IntN(3)
	case 3:
		n = 32767 + r.IntN(3)
	case 4:
		n = r.IntN(max)
	default:
		n = r.IntN(300)
	}
	if g.Level == 0 {
		n = r.IntN(64)
	}
	if n == 0 && g.NoEmptyStrings {
		n = 1 // a required request body must have a value for the wire validator
	}
	b := make([]byte, n)
	pat := []byte(g.Tag + "|")
	for i := range b {
		b[i] = pat[i%len(pat)]
	}
	if n > 8 && g.Level > 0 {
		for i := 0; i < 4; i++ {
			b[r.IntN(n)] = byte(r.IntN(256))
		}
	}
	return b
}

// Value builds a value of type t.
func (g *Gen) Value(t reflect.Type, loc Loc) reflect.Value {
	g.depth++
	defer func() { g.depth-- }()
	r := g.R
	v := reflect.New(t).Elem()
	if kind, ok := isMaybe(t); ok {
		_ = kind
		set := r.IntN(3) != 0 || g.SetAll
		if g.depth > 6 {
			set = false
		}
		if set {
			v.Field(0).SetBool(true)
			v.Field(1).Set(g.Value(t.Field(1).Type, loc))
		}
		return v
	}
	switch {
	case t == timeType:
		v.Set(reflect.ValueOf(g.time()))
		return v
	case t == rawMsgType:
		b, _ := json.Marshal(g.anyJSON(0))
		v.SetBytes(b)
		return v
	case t.Kind() == reflect.Interface && t.NumMethod() == 0:
		x := g.anyJSON(0)
		if x != nil {
			v.Set(reflect.ValueOf(x))
		}
		return v
	case t.Kind() == reflect.Interface && (readerType.Implements(t) || t.Implements(readerType)):
		tr := NewReader(g.RawBody())
		tr.EOFWithData = r.IntN(3) == 0
		if reflect.TypeOf(tr).Implements(t) {
			v.Set(reflect.ValueOf(tr))
		}
		return v
	}
	switch t.Kind() {
	case reflect.String:
		v.SetString(g.str(loc))
	case reflect.Bool:
		v.SetBool(r.IntN(2) == 0)
	case reflect.Int, reflect.Int64:
		v.SetInt(g.int64n(64))
	case reflect.Int32:
		v.SetInt(g.int64n(32))
	case reflect.Int16:
		v.SetInt(g.int64n(16))
	case reflect.Int8:
		v.SetInt(g.int64n(8))
	case reflect.Uint, reflect.Uint64, reflect.Uint32, reflect.Uint16, reflect.Uint8:
		v.SetUint(uint64(r.IntN(200)))
	case reflect.Float64:
		v.SetFloat(g.float(64))
	case reflect.Float32:
		v.SetFloat(g.float(32))
	case reflect.Slice:
		n := 1 + r.IntN(4)
		if (loc == LocBody || g.EmptySlices) && r.IntN(4) == 0 {
			n = 0
		}
		if g.depth > 5 {
			n = 0
			if loc != LocBody {
				n = 1
			}
		}
		if n == 0 && (loc == LocBody || g.EmptySlices) && r.IntN(2) == 0 {
			return v // a nil slice: expressible, and must travel as [] (not null) where the schema is not nullable
		}
		s := reflect.MakeSlice(t, n, n)
		for i := 0; i < n; i++ {
			s.Index(i).Set(g.Value(t.Elem(), loc))
		}
		v.Set(s)
	case reflect.Map:
		if t.Key().Kind() != reflect.String {
			g.Unsupported = append(g.Unsupported, t.String())
			return v
		}
		n := r.IntN(4)
		if g.depth > 5 {
			n = 0
		}
		m := reflect.MakeMapWithSize(t, n)
		for i := 0; i < n; i++ {
			k := "extra" + strconv.Itoa(i)
			if g.Level > 0 && r.IntN(3) == 0 {
				k = g.str(LocBody) + strconv.Itoa(i)
			}
			kv := reflect.New(t.Key()).Elem()
			kv.SetString(k)
			m.SetMapIndex(kv, g.Value(t.Elem(), loc))
		}
		v.Set(m)
	case reflect.Pointer:
		if r.IntN(3) != 0 && g.depth < 5 {
			p := reflect.New(t.Elem())
			p.Elem().Set(g.Value(t.Elem(), loc))
			v.Set(p)
		}
	case reflect.Struct:
		if g.OneOf[t.Name()] {
			i := r.IntN(t.NumField())
			f := v.Field(i)
			if _, ok := isMaybe(f.Type()); ok {
				f.Field(0).SetBool(true)
				f.Field(1).Set(g.Value(f.Type().Field(1).Type, loc))
				if di := g.Discr[t.Name()]; di != nil && i < len(di.Keys) && len(di.Keys[i]) > 0 {
					vv := f.Field(1)
					if vv.Kind() == reflect.Struct {
						for j := 0; j < vv.NumField(); j++ {
							if norm(vv.Type().Field(j).Name) != norm(di.Prop) {
								continue
							}
							key := di.Keys[i][r.IntN(len(di.Keys[i]))]
							pf := vv.Field(j)
							if _, ok := isMaybe(pf.Type()); ok && pf.Field(1).Kind() == reflect.String {
								pf.Field(0).SetBool(true)
								pf.Field(1).SetString(key)
							} else if pf.Kind() == reflect.String {
								pf.SetString(key)
							}
						}
					}
				}
			}
			return v
		}
		for i := 0; i < t.NumField(); i++ {
			f := t.Field(i)
			if !f.IsExported() {
				continue
			}
			fl := loc
			v.Field(i).Set(g.Value(f.Type, fl))
		}
	default:
		g.Unsupported = append(g.Unsupported, t.String())
	}
	return v
}

// Params builds a request-parameters struct: fields Query/Path/Headers/Body select the alphabet.
func (g *Gen) Params(t reflect.Type) reflect.Value {
	v := reflect.New(t).Elem()
	for i := 0; i < t.NumField(); i++ {
		f := t.Field(i)
		loc := LocBody
		switch f.Name {
		case "Query":
			loc = LocQuery
		case "Path":
			loc = LocPath
		case "Headers":
			loc = LocHeader
		}
		v.Field(i).Set(g.Value(f.Type, loc))
	}
	return v
}

// ---- canonical form ----------------------------------------------------------------------------------

// Canon prints v canonically: times as UTC instants, unset optionals without their payload,
// readers by content, maps sorted, nil and empty slices alike, RawMessage/any as canonical JSON.
func Canon(v reflect.Value) string {
	var b strings.Builder
	canon(&b, v, 0)
	return b.String()
}

func canonJSON(raw []byte) string {
	var x any
	d := json.NewDecoder(bytes.NewReader(raw))
	d.UseNumber()
	if err := d.Decode(&x); err != nil {
		return "badjson:" + hex.EncodeToString(raw)
	}
	out, _ := json.Marshal(normNum(x))
	return string(out)
}

func normNum(x any) any {
	switch t := x.(type) {
	case json.Number:
		f, err := t.Float64()
		if err != nil {
			return t.String()
		}
		return f
	case map[string]any:
		for k, v := range t {
			t[k] = normNum(v)
		}
	case []any:
		for i := range t {
			t[i] = normNum(t[i])
		}
	}
	return x
}

func canon(b *strings.Builder, v reflect.Value, d int) {
	if d > 40 {
		b.WriteString("<deep>")
		return
	}
	if !v.IsValid() {
		b.WriteString("<invalid>")
		return
	}
	t := v.Type()
	if _, ok := isMaybe(t); ok {
		if !v.Field(0).Bool() {
			b.WriteString("unset")
			return
		}
		b.WriteString("set(")
		canon(b, v.Field(1), d+1)
		b.WriteString(")")
		return
	}
	if t == timeType {
		tm := v.Interface().(time.Time)
		b.WriteString("time:" + tm.UTC().Format(time.RFC3339Nano))
		return
	}
	if t == rawMsgType {
		b.WriteString("json:" + canonJSON(v.Bytes()))
		return
	}
	switch v.Kind() {
	case reflect.Interface:
		if v.IsNil() {
			b.WriteString("nil")
			return
		}
		if t.NumMethod() == 0 {
			js, err := json.Marshal(v.Interface())
			if err != nil {
				b.WriteString("unmarshalable:" + err.Error())
				return
			}
			b.WriteString("json:" + canonJSON(js))
			return
		}
		e := v.Elem()
		if tr, ok := e.Interface().(*TagReader); ok {
			b.WriteString("bytes[" + strconv.Itoa(len(tr.Data)) + "]:" + hashBytes(tr.Data))
			if tr.Err != "" {
				b.WriteString(" err:" + tr.Err)
			}
			return
		}
		if err, ok := e.Interface().(error); ok && t == errorType {
			b.WriteString("error:" + err.Error())
			return
		}
		b.WriteString("(" + e.Type().String() + ")")
		canon(b, e, d+1)
	case reflect.Pointer:
		if v.IsNil() {
			b.WriteString("nil")
			return
		}
		if tr, ok := v.Interface().(*TagReader); ok {
			b.WriteString("bytes[" + strconv.Itoa(len(tr.Data)) + "]:" + hashBytes(tr.Data))
			return
		}
		b.WriteString("&")
		canon(b, v.Elem(), d+1)
	case reflect.Struct:
		b.WriteString(t.Name() + "{")
		for i := 0; i < t.NumField(); i++ {
			if !t.Field(i).IsExported() {
				continue
			}
			b.WriteString(t.Field(i).Name + ":")
			canon(b, v.Field(i), d+1)
			b.WriteString(" ")
		}
		b.WriteString("}")
	case reflect.Slice, reflect.Array:
		if t.Elem().Kind() == reflect.Uint8 {
			b.WriteString("bytes:" + hex.EncodeToString(v.Bytes()))
			return
		}
		b.WriteString("[")
		for i := 0; i < v.Len(); i++ {
			canon(b, v.Index(i), d+1)
			b.WriteString(",")
		}
		b.WriteString("]")
	case reflect.Map:
		keys := v.MapKeys()
		sort.Slice(keys, func(i, j int) bool { return fmt.Sprint(keys[i]) < fmt.Sprint(keys[j]) })
		b.WriteString("map{")
		for _, k := range keys {
			b.WriteString(strconv.Quote(fmt.Sprint(k)) + ":")
			canon(b, v.MapIndex(k), d+1)
			b.WriteString(",")
		}
		b.WriteString("}")
	case reflect.String:
		b.WriteString(strconv.Quote(v.String()))
	case reflect.Float32, reflect.Float64:
		f := v.Float()
		if f == 0 {
			f = 0 // -0 and +0 are the same number
		}
		b.WriteString(strconv.FormatFloat(f, 'g', -1, 64))
	case reflect.Func:
		b.WriteString("func")
	default:
		fmt.Fprint(b, v.Interface())
	}
}

func hashBytes(b []byte) string {
	var h uint64 = 14695981039346656037
	for _, c := range b {
		h ^= uint64(c)
		h *= 1099511628211
	}
	if len(b) <= 24 {
		return hex.EncodeToString(b)
	}
	return fmt.Sprintf("%016x", h)
}

// DrainReaders replaces every non-nil io.Reader found in v (addressable) by a TagReader holding its content.
func DrainReaders(v reflect.Value) {
	switch v.Kind() {
	case reflect.Struct:
		for i := 0; i < v.NumField(); i++ {
			if v.Type().Field(i).IsExported() {
				DrainReaders(v.Field(i))
			}
		}
	case reflect.Interface:
		if v.IsNil() || !v.CanSet() {
			return
		}
		if rd, ok := v.Interface().(io.Reader); ok {
			if _, mine := rd.(*TagReader); mine {
				return
			}
			data, err := io.ReadAll(rd)
			tr := &TagReader{Data: data, FailAfter: -1}
			if err != nil {
				tr.Err = err.Error()
			}
			if c, ok := rd.(io.Closer); ok {
				c.Close()
			}
			if reflect.TypeOf(tr).Implements(v.Type()) {
				v.Set(reflect.ValueOf(tr))
			}
		}
	}
}

// Diff walks two values of the same type in parallel and returns the path and Go type of the
// first leaf whose canonical forms differ ("" = equal).
func Diff(a, b reflect.Value) (path, typ, ca, cb string) {
	if !a.IsValid() || !b.IsValid() || a.Type() != b.Type() {
		return "", "type", fmt.Sprint(a), fmt.Sprint(b)
	}
	if Canon(a) == Canon(b) {
		return "", "", "", ""
	}
	t := a.Type()
	if _, ok := isMaybe(t); !ok && t.Kind() == reflect.Struct && t != timeType {
		for i := 0; i < t.NumField(); i++ {
			if !t.Field(i).IsExported() {
				continue
			}
			if p, ty, x, y := Diff(a.Field(i), b.Field(i)); ty != "" {
				if p == "" {
					return t.Field(i).Name, ty, x, y
				}
				return t.Field(i).Name + "." + p, ty, x, y
			}
		}
	}
	return "", t.String(), Canon(a), Canon(b)
}

// HasNestedNilSlice reports whether v contains a nil slice as an element of a map or of another slice
// (as opposed to a nil slice held directly by a struct field or being the value itself).
func HasNestedNilSlice(v reflect.Value) bool { return nestedNil(v, false, 0) }

func nestedNil(v reflect.Value, inContainer bool, d int) bool {
	if !v.IsValid() || d > 40 {
		return false
	}
	switch v.Kind() {
	case reflect.Slice:
		if v.IsNil() {
			return inContainer
		}
		if v.Type().Elem().Kind() == reflect.Uint8 {
			return false
		}
		for i := 0; i < v.Len(); i++ {
			if nestedNil(v.Index(i), true, d+1) {
				return true
			}
		}
	case reflect.Map:
		for _, k := range v.MapKeys() {
			if nestedNil(v.MapIndex(k), true, d+1) {
				return true
			}
		}
	case reflect.Struct:
		if v.Type() == timeType {
			return false
		}
		for i := 0; i < v.NumField(); i++ {
			if v.Type().Field(i).IsExported() && nestedNil(v.Field(i), false, d+1) {
				return true
			}
		}
	case reflect.Pointer, reflect.Interface:
		if !v.IsNil() {
			return nestedNil(v.Elem(), inContainer, d+1)
		}
	}
	return false
}
