package sim

import (
	"bufio"
	"bytes"
	"context"
	"errors"
	"fmt"
	"io"
	"math/rand/v2"
	"net/http"
	"runtime/debug"
	"sort"
	"strings"
)

// Faults is the per-request fault plan. Every offset is derived from the request's
// own FaultSeed and its own byte streams, never from global time or another task,
// so the outcome of a request is schedule-independent for correct code.
type Faults struct {
	Seed             uint64 `json:"seed"`
	ReqCutMode       int    `json:"req_cut,omitempty"` // 0 none 1 bytewise-head 2 small 3 few 4 buffer-boundaries
	RespCutMode      int    `json:"resp_cut,omitempty"`
	ReqReset         bool   `json:"req_reset,omitempty"` // connection reset inside the request
	ReqResetInBody   bool   `json:"req_reset_in_body,omitempty"`
	ErrWithData      bool   `json:"err_with_data,omitempty"` // reader returns (n>0, err) together
	RespTruncate     bool   `json:"resp_truncate,omitempty"`
	Dup              bool   `json:"dup,omitempty"`
	Intermediary     int    `json:"intermediary,omitempty"`     // 0 none, else index into Canned
	WriterFail       bool   `json:"writer_fail,omitempty"`      // ResponseWriter.Write starts failing after k bytes
	WriterFailAt0    bool   `json:"writer_fail_at_0,omitempty"` // ... with k = 0: the very first Write is rejected with n = 0
	CancelBefore     bool   `json:"cancel_before_send,omitempty"`
	SrvCancelStep    int    `json:"srv_cancel_step,omitempty"`     // server ctx cancelled at the server task's k-th own step
	RawRespFail      bool   `json:"raw_resp_fail,omitempty"`       // handler-supplied raw response body fails mid-copy
	SrvCancelAtStart bool   `json:"srv_cancel_at_start,omitempty"` // request context already cancelled when ServeHTTP is entered
}

func (f Faults) Any() bool {
	return f.ReqCutMode != 0 || f.RespCutMode != 0 || f.ReqReset || f.RespTruncate || f.Dup || f.Intermediary != 0 || f.WriterFail || f.CancelBefore || f.SrvCancelStep != 0 || f.RawRespFail || f.SrvCancelAtStart
}

// DataPreserving reports whether the plan contains only faults under which the property must hold unchanged.
func (f Faults) DataPreserving() bool {
	return !(f.ReqReset || f.RespTruncate || f.Intermediary != 0 || f.WriterFail || f.CancelBefore || f.SrvCancelStep != 0 || f.RawRespFail)
}

type Canned struct {
	Status int
	CT     string
	Body   string
}

var CannedResponses = []Canned{
	{},
	{502, "text/html", "<html><body><h1>502 Bad Gateway</h1></body></html>"},
	{503, "", ""},
	{429, "application/json", `{"error":"too many requests","retry_after":3}`},
	{418, "application/json", `[1,2,3]`},
	{599, "application/json", `"just a string"`},
	{202, "application/json", `{}`},
	{299, "", ""},
	{203, "application/json", `{"id":1,"name":"x"}`},
	{400, "text/plain", "bad request from a gateway"},
}

func CutsFor(mode int, n int, rng *rand.Rand) []int {
	var cuts []int
	switch mode {
	case 1:
		for i := 1; i < n && i <= 600; i++ {
			cuts = append(cuts, i)
		}
	case 2:
		for p := 0; p < n && len(cuts) < 96; {
			p += 1 + rng.IntN(16)
			if p < n {
				cuts = append(cuts, p)
			}
		}
	case 3:
		k := 1 + rng.IntN(4)
		for i := 0; i < k && n > 1; i++ {
			cuts = append(cuts, 1+rng.IntN(n-1))
		}
	case 4:
		for _, b := range []int{4095, 4096, 4097, 8192, 32767, 32768, 32769, 65536} {
			if b < n {
				cuts = append(cuts, b)
			}
		}
		if n > 2 {
			cuts = append(cuts, n-1)
		}
	}
	sort.Ints(cuts)
	return cuts
}

// Conn is one direction of a simulated connection.
type Conn struct {
	S           *Sched
	Data        []byte
	Cuts        []int
	Limit       int // -1 = none; else reset after Limit bytes
	ErrWithData bool
	pos         int
	ci          int
	yieldedAt   int
	OnReset     func()
	Segments    int
	ResetHit    bool
}

var ErrReset = fmt.Errorf("read: connection reset by peer (simulated): %w", io.ErrUnexpectedEOF)

func (c *Conn) Read(p []byte) (int, error) {
	if len(p) == 0 {
		return 0, nil
	}
	end := len(c.Data)
	if c.Limit >= 0 && c.Limit < end {
		end = c.Limit
	}
	if c.pos >= end {
		if c.Limit >= 0 && c.Limit <= len(c.Data) && c.pos >= c.Limit {
			if !c.ResetHit {
				c.ResetHit = true
				if c.OnReset != nil {
					c.OnReset()
				}
			}
			return 0, ErrReset
		}
		return 0, io.EOF
	}
	for c.ci < len(c.Cuts) && c.Cuts[c.ci] <= c.pos {
		if c.Cuts[c.ci] == c.pos && c.yieldedAt != c.pos {
			c.yieldedAt = c.pos
			c.Segments++
			if c.S != nil {
				c.S.Yield("net segment")
			}
		}
		c.ci++
	}
	stop := end
	if c.ci < len(c.Cuts) && c.Cuts[c.ci] < stop {
		stop = c.Cuts[c.ci]
	}
	n := copy(p, c.Data[c.pos:stop])
	c.pos += n
	if c.ErrWithData && c.Limit >= 0 && c.pos >= c.Limit && c.Limit < len(c.Data) {
		if !c.ResetHit {
			c.ResetHit = true
			if c.OnReset != nil {
				c.OnReset()
			}
		}
		return n, ErrReset
	}
	return n, nil
}

// ---- response writer --------------------------------------------------------------------------------

type RW struct {
	S            *Sched
	req          *http.Request
	hdr          http.Header
	snap         http.Header
	Status       int
	Wrote        bool
	Superfluous  int
	HeaderWrites int
	Body         bytes.Buffer
	FailAfter    int // -1 none
	written      int
	WriteErrs    int
	BadCode      int
}

var ErrClientGone = errors.New("write: broken pipe (simulated client gone)")

func (w *RW) Header() http.Header {
	w.S.Yield("rw.Header")
	return w.hdr
}

func (w *RW) WriteHeader(code int) {
	w.S.Yield("rw.WriteHeader")
	if w.Wrote {
		w.Superfluous++
		return
	}
	if code < 100 || code > 999 {
		w.BadCode = code
		panic(fmt.Sprintf("invalid WriteHeader code %v", code))
	}
	w.Wrote = true
	w.HeaderWrites++
	w.Status = code
	w.snap = w.hdr.Clone()
}

func bodyAllowed(status int) bool {
	switch {
	case status >= 100 && status <= 199:
		return false
	case status == 204, status == 304:
		return false
	}
	return true
}

func (w *RW) Write(b []byte) (int, error) {
	if !w.Wrote {
		w.WriteHeader(200)
	} else {
		w.S.Yield("rw.Write")
	}
	if !bodyAllowed(w.Status) {
		return 0, http.ErrBodyNotAllowed
	}
	if w.FailAfter >= 0 && w.written+len(b) > w.FailAfter {
		n := w.FailAfter - w.written
		if n < 0 {
			n = 0
		}
		if w.req.Method != http.MethodHead {
			w.Body.Write(b[:n])
		}
		w.written += n
		w.WriteErrs++
		return n, ErrClientGone
	}
	w.written += len(b)
	if w.req.Method != http.MethodHead {
		w.Body.Write(b)
	}
	return len(b), nil
}

// ---- server shell -------------------------------------------------------------------------------------

// Delivery is what one server connection observed.
type Delivery struct {
	Tag          string
	ReadErr      string // http.ReadRequest failed: generated code never entered
	Entered      bool
	Handler      string
	ParseErr     string
	ParsePanic   string
	Params       string
	ParamsVal    any // reflect.Value of the parsed parameters (readers drained)
	RawBody      string
	Trace        []string
	Panic        string
	PanicStack   string
	Superfluous  int
	HeaderWrites int
	Status       int
	WriteErrs    int
	RespWire     []byte
	Finished     bool
	CtxTag       string
}

// Serve runs the server shell for one connection on the current task.
func Serve(s *Sched, h http.Handler, c2s *Conn, d *Delivery, f Faults, rng *rand.Rand) {
	br := bufio.NewReader(c2s)
	req, err := http.ReadRequest(br)
	if err != nil {
		d.ReadErr = err.Error()
		d.Finished = true
		return
	}
	ctx, cancel := context.WithCancel(context.Background())
	defer cancel()
	c2s.OnReset = cancel
	if f.SrvCancelStep > 0 {
		t := s.Cur
		base := t.Steps
		t.OnOwnStep = func(n int) {
			if n-base == f.SrvCancelStep {
				cancel()
				s.Probes["server_ctx_cancelled_mid_request"]++
			}
		}
		defer func() { t.OnOwnStep = nil }()
	}
	if f.SrvCancelAtStart {
		cancel()
		s.Probes["server_ctx_cancelled_at_start"]++
	}
	req = req.WithContext(ctx)
	req.RemoteAddr = "192.0.2.1:1234"
	rw := &RW{S: s, req: req, hdr: http.Header{}, FailAfter: -1}
	if f.WriterFail {
		rw.FailAfter = rng.IntN(64)
		switch rng.IntN(4) {
		case 0:
			rw.FailAfter = rng.IntN(8192)
		case 1:
			rw.FailAfter = 0
		}
		if f.WriterFailAt0 {
			rw.FailAfter = 0
		}
	}
	d.Entered = true
	func() {
		defer func() {
			if r := recover(); r != nil {
				d.Panic = fmt.Sprint(r)
				d.PanicStack = string(debug.Stack())
			}
		}()
		h.ServeHTTP(rw, req)
	}()
	if req.Body != nil {
		io.Copy(io.Discard, req.Body)
		req.Body.Close()
	}
	d.HeaderWrites = rw.HeaderWrites
	if !rw.Wrote {
		rw.Wrote, rw.Status, rw.snap = true, 200, rw.hdr.Clone() // net/http's implicit 200
	}
	d.Superfluous, d.Status, d.WriteErrs = rw.Superfluous, rw.Status, rw.WriteErrs
	body := rw.Body.Bytes()
	resp := &http.Response{StatusCode: rw.Status, ProtoMajor: 1, ProtoMinor: 1, Header: rw.snap, Request: req,
		Body: io.NopCloser(bytes.NewReader(body)), ContentLength: int64(len(body))}
	if rw.snap.Get("Content-Length") != "" {
		resp.Header = rw.snap.Clone()
		resp.Header.Del("Content-Length")
	}
	if !bodyAllowed(rw.Status) {
		resp.Body, resp.ContentLength = http.NoBody, 0
	}
	var buf bytes.Buffer
	if err := resp.Write(&buf); err != nil {
		d.Trace = append(d.Trace, "shell: response serialisation failed: "+err.Error())
	}
	d.RespWire = buf.Bytes()
	d.Finished = true
}

// PanicFrame extracts the first frame of the generated package from a stack.
func PanicFrame(stack, pkgPath string) string {
	for _, line := range strings.Split(stack, "\n") {
		line = strings.TrimSpace(line)
		if strings.HasPrefix(line, pkgPath+".") {
			fn := strings.TrimPrefix(line, pkgPath+".")
			if i := strings.Index(fn, "("); i > 0 && !strings.HasPrefix(fn, "(") {
				fn = fn[:i]
			} else if strings.HasPrefix(fn, "(") {
				if j := strings.LastIndex(fn, "("); j > 0 {
					fn = fn[:j]
				}
			}
			if strings.HasPrefix(fn, "VerifRegistry") {
				continue
			}
			return fn
		}
	}
	return "?"
}

// PanicOrigin returns the function that panicked: the first frame below the runtime's panic machinery.
func PanicOrigin(stack string) string {
	lines := strings.Split(stack, "\n")
	seenPanic := false
	for i := 0; i < len(lines); i++ {
		l := strings.TrimSpace(lines[i])
		if strings.HasPrefix(l, "panic(") {
			seenPanic = true
			continue
		}
		if !seenPanic || l == "" || strings.HasPrefix(l, "/") || strings.HasPrefix(l, "goroutine ") {
			continue
		}
		if strings.HasPrefix(l, "runtime.") || strings.HasPrefix(l, "runtime/") {
			continue
		}
		return l
	}
	return ""
}

// HarnessPanic reports whether a recovered panic originated in the harness itself (reflection glue,
// value construction, recording hooks) rather than in generated or library code called by generated code.
func HarnessPanic(stack string) bool {
	o := PanicOrigin(stack)
	if strings.HasPrefix(o, "verifsim/harness.") || strings.HasPrefix(o, "verifsim/values.") || strings.HasPrefix(o, "verifsim/sim.") || strings.HasPrefix(o, "verifsim/hook.") {
		return true
	}
	if strings.HasPrefix(o, "reflect.") {
		// reflect panics come from harness glue unless a generated frame sits directly above reflect
		for _, l := range strings.Split(stack, "\n") {
			l = strings.TrimSpace(l)
			if strings.HasPrefix(l, "verifsim/gen/") {
				return false
			}
			if strings.HasPrefix(l, "verifsim/harness.") || strings.HasPrefix(l, "verifsim/values.") {
				return true
			}
		}
	}
	return false
}
