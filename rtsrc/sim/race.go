package sim

import (
	"fmt"
)

// The in-simulator race detector. The scheduler releases one task at a time, so the Go
// race detector would see every access ordered by the hand-over itself; what decides
// "unsynchronised" here is the happens-before relation the *program* establishes:
// program order, task creation, release->acquire of a simulator-tracked lock, Put->Get
// of a simulated pool, and the harness's own hand-overs (a request sent before it is
// served, a response produced before the caller resumes). Two accesses to one location
// by different tasks, at least one a write, neither ordered before the other, are a race
// in every real execution that overlaps them - the schedule only has to bring both about,
// it does not have to make them adjacent.
//
// Every edge that is not certain to be absent is kept (harness hand-overs publish the whole
// clock of the publishing task), so the detector under-reports rather than over-reports.

type vclock []uint32

func (v vclock) get(i int) uint32 {
	if i < len(v) {
		return v[i]
	}
	return 0
}

func (v *vclock) join(o vclock) {
	for len(*v) < len(o) {
		*v = append(*v, 0)
	}
	for i, c := range o {
		if c > (*v)[i] {
			(*v)[i] = c
		}
	}
}

func (v *vclock) set(i int, c uint32) {
	for len(*v) <= i {
		*v = append(*v, 0)
	}
	(*v)[i] = c
}

type raceEpoch struct {
	task   int
	clk    uint32
	site   int
	locked bool
	name   string
}

type raceLoc struct {
	lo, hi uint8 // byte range inside the word
	label  string
	w      *raceEpoch
	reads  []raceEpoch
}

type Race struct {
	Loc  string
	Text string
}

type raceDet struct {
	words  map[uintptr][]*raceLoc // records per 8-byte word, by byte range (maps: the map's identity, tagged)
	keep   []any                  // the objects accessed so far: alive, hence their addresses are not reused
	locks  map[any]*vclock
	pools  map[any]*vclock
	hand   vclock // what the harness's own hand-overs have published
	Races  []Race
	seen   map[string]bool
	SiteFn func(site int) string
	Accs   int
}

func newRaceDet() *raceDet {
	return &raceDet{words: map[uintptr][]*raceLoc{}, locks: map[any]*vclock{}, pools: map[any]*vclock{}, seen: map[string]bool{}}
}

func (t *Task) tick() { t.vc.set(t.ID, t.vc.get(t.ID)+1) }

func (r *raceDet) access(t *Task, pkg, site int, keep any, addr, size uintptr, label string, write, isMap bool) {
	r.Accs++
	r.keep = append(r.keep, keep)
	cur := raceEpoch{task: t.ID, clk: t.vc.get(t.ID), site: pkg<<20 | site, locked: t.Locks > 0, name: t.Name}
	if isMap {
		r.word(t, addr|1, 0, 1, label, cur, write)
		return
	}
	if size == 0 {
		return
	}
	if size > 512 {
		size = 512
	}
	end := addr + size
	for w := addr &^ 7; w < end; w += 8 {
		lo, hi := uintptr(0), uintptr(8)
		if addr > w {
			lo = addr - w
		}
		if end < w+8 {
			hi = end - w
		}
		r.word(t, w, uint8(lo), uint8(hi), label, cur, write)
	}
}

func (r *raceDet) word(t *Task, key uintptr, lo, hi uint8, label string, cur raceEpoch, write bool) {
	var exact *raceLoc
	for _, l := range r.words[key] {
		if l.lo == lo && l.hi == hi {
			exact = l
		}
		if l.hi <= lo || hi <= l.lo {
			continue // another part of the word
		}
		if l.w != nil && l.w.task != t.ID && l.w.clk > t.vc.get(l.w.task) {
			r.report(label, l.label, *l.w, true, cur, write)
		}
		if write {
			for _, rd := range l.reads {
				if rd.task != t.ID && rd.clk > t.vc.get(rd.task) {
					r.report(label, l.label, rd, false, cur, true)
				}
			}
		}
	}
	if exact == nil {
		exact = &raceLoc{lo: lo, hi: hi, label: label}
		r.words[key] = append(r.words[key], exact)
	}
	l := exact
	if write {
		c := cur
		l.w, l.label = &c, label
		l.reads = l.reads[:0]
		return
	}
	for i := range l.reads {
		if l.reads[i].task == t.ID {
			l.reads[i] = cur
			return
		}
	}
	l.reads = append(l.reads, cur)
}

func (r *raceDet) report(loc, other string, prev raceEpoch, prevWrite bool, cur raceEpoch, curWrite bool) {
	key := loc
	if len(other) < len(key) {
		key = other
	}
	if r.seen[key] || len(r.Races) >= 8 {
		return
	}
	r.seen[key] = true
	kind := func(w bool) string {
		if w {
			return "write"
		}
		return "read"
	}
	held := func(l bool) string {
		if l {
			return "holding a lock"
		}
		return "holding no lock"
	}
	site := func(s int) string {
		if r.SiteFn != nil {
			return r.SiteFn(s)
		}
		return fmt.Sprint(s)
	}
	r.Races = append(r.Races, Race{Loc: key, Text: fmt.Sprintf("%s: %s by %s (%s, %s) is not ordered after the %s of %s by %s (%s, %s): no lock, pool or hand-over makes one happen before the other",
		loc, kind(curWrite), cur.name, site(cur.site), held(cur.locked), kind(prevWrite), other, prev.name, site(prev.site), held(prev.locked))})
}

// lock event: acquire joins what the last releases published, release publishes.
func (r *raceDet) lockEvent(t *Task, l any, delta int) {
	vc := r.locks[l]
	if vc == nil {
		vc = &vclock{}
		r.locks[l] = vc
	}
	if delta > 0 {
		t.vc.join(*vc)
		return
	}
	vc.join(t.vc)
	t.tick()
}

func (r *raceDet) poolEvent(t *Task, p any, put bool) {
	vc := r.pools[p]
	if vc == nil {
		vc = &vclock{}
		r.pools[p] = vc
	}
	if put {
		vc.join(t.vc)
		t.tick()
		return
	}
	t.vc.join(*vc)
}

// Publish: everything the current task did so far happens before whatever a task does after it next
// resumes from a harness wait.
func (s *Sched) Publish() {
	if s.race == nil || s.Cur == nil {
		return
	}
	s.race.hand.join(s.Cur.vc)
	s.Cur.tick()
}

func (s *Sched) acquireHand(t *Task) {
	if s.race != nil {
		t.vc.join(s.race.hand)
	}
}

// EnableRace switches the detector on for this run.
func (s *Sched) EnableRace(siteFn func(int) string) {
	s.race = newRaceDet()
	s.race.SiteFn = siteFn
}

func (s *Sched) Races() []Race {
	if s.race == nil {
		return nil
	}
	return s.race.Races
}

func (s *Sched) RaceAccesses() int {
	if s.race == nil {
		return 0
	}
	return s.race.Accs
}
