// Package sim is the deterministic scheduler, network and HTTP server shell of
// rtsim. Tasks are real goroutines, but exactly one is released at a time and
// every hand-over is decided by the choice tape, so a run is a pure function of it.
package sim

import (
	"bytes"
	"errors"
	"fmt"
	"hash/fnv"
	"runtime"
	"strconv"
	"sync/atomic"
	"time"

	"verifsim/hook"
	"verifsim/tape"
)

type Task struct {
	ID          int
	Name        string
	Tag         string
	wake        chan struct{}
	Done        bool
	blocked     func() bool
	What        string
	Steps       int
	Locks       int
	LockTouched bool // acquired or released a simulator-tracked lock since the last shared-state check
	Panic       any
	PanicStack  string
	Site        int // last yield site (pkg<<20|site), 0 = a seam outside generated code
	started     bool
	fn          func()
	vc          vclock
	Parent      *Task // the task whose `go` statement started this one (generated code with goroutines of its own)
	gid         int64
	inOp        bool        // between hook.Pre() and hook.Post(): executing a real operation that may block on another task
	realBlocked bool        // found blocked inside that operation; it comes back through Post()
	postParked  bool        // ... and has: parked in Post(), waiting to be picked
	OnOwnStep   func(n int) // called on the task's goroutine at each of its yields (own-progress anchored faults)
}

type Sched struct {
	T          *tape.Tape
	Tasks      []*Task
	Cur        *Task
	last       *Task
	back       chan *Task
	Steps      int
	StepCap    int
	Strategy   int // 0 sticky, 1 uniform
	SitePct    int // percentage of yield sites enabled
	Salt       uint64
	Switches   int
	SwitchHash uint64
	Pairs      map[uint64]struct{} // (site parked, site resumed) across context switches
	SameFunc   func(a, b int) bool
	Probes     map[string]int
	AfterStep  func(t *Task) // scheduler goroutine, after every step
	Log        []string
	LogOn      bool
	race       *raceDet
	// RealBlock: the generated package has goroutines / channel operations of its own. Their blocking operations are
	// the real ones; the scheduler finds out by a goroutine dump that the task it released is blocked in one.
	RealBlock bool
	lk        spinLock
	opDone    int32 // a bracketed operation, a spawn or a task end happened since the last settle (only those can wake a blocked task)
}

// Debug, when set, receives one line per scheduling decision (diagnostics only).
var Debug func(string)

var ErrStall = errors.New("stall: unfinished tasks but nothing runnable")
var ErrStepCap = errors.New("step cap exceeded")

func New(t *tape.Tape) *Sched {
	return &Sched{T: t, back: make(chan *Task), StepCap: 2_000_000, SitePct: 100, Pairs: map[uint64]struct{}{}, Probes: map[string]int{}}
}

func (s *Sched) Logf(f string, a ...any) {
	if s.LogOn {
		s.Log = append(s.Log, fmt.Sprintf("#%d ", s.Steps)+fmt.Sprintf(f, a...))
	}
}

// Go creates a task; it starts running when the scheduler first picks it.
func (s *Sched) Go(name, tag string, fn func()) *Task {
	t := &Task{ID: len(s.Tasks), Name: name, Tag: tag, wake: make(chan struct{}), fn: fn}
	if p := s.Cur; p != nil {
		t.vc.join(p.vc) // creation happens before everything the new task does
		p.tick()
	}
	t.vc.set(t.ID, 1)
	s.Tasks = append(s.Tasks, t)
	go func() {
		t.gid = curGID()
		<-t.wake
		defer func() {
			if r := recover(); r != nil {
				t.Panic = r
			}
			if s.race != nil {
				s.race.hand.join(t.vc)
			}
			atomic.StoreInt32(&s.opDone, 1)
			t.Done = true
			s.back <- t
		}()
		t.fn()
	}()
	return t
}

// Yield is a harness seam: it publishes the task's clock (see race.go) and hands control back.
func (s *Sched) Yield(what string) {
	s.Publish()
	s.yield(what)
}

// yield hands control back to the scheduler. Only the current task may call it.
func (s *Sched) yield(what string) {
	t := s.Cur
	if t == nil {
		return
	}
	t.Steps++
	if t.OnOwnStep != nil {
		t.OnOwnStep(t.Steps)
	}
	t.What = what
	s.back <- t
	<-t.wake
}

// Block is a harness wait: what other tasks published before it ends happens before what follows.
func (s *Sched) Block(what string, ready func() bool) {
	s.Publish()
	s.block(what, ready)
	if t := s.Cur; t != nil {
		s.acquireHand(t)
	}
}

// block parks the current task until ready() holds (evaluated by the scheduler).
func (s *Sched) block(what string, ready func() bool) {
	t := s.Cur
	if t == nil {
		if !ready() {
			panic("sim: Block outside a task: " + what)
		}
		return
	}
	if ready() {
		return
	}
	if t.Locks > 0 {
		s.Probes["blocked_while_holding_lock"]++
	}
	t.blocked = ready
	t.What = what
	t.Steps++
	s.back <- t
	<-t.wake
}

func (s *Sched) siteEnabled(pkg, site int) bool {
	if s.SitePct >= 100 {
		return true
	}
	h := fnv.New64a()
	var b [24]byte
	for i := 0; i < 8; i++ {
		b[i] = byte(s.Salt >> (8 * i))
		b[8+i] = byte(uint64(pkg) >> (8 * i))
		b[16+i] = byte(uint64(site) >> (8 * i))
	}
	h.Write(b[:])
	return int(h.Sum64()%100) < s.SitePct
}

// Install points the hook package at this scheduler.
func (s *Sched) Install() {
	hook.YieldFn = func(pkg, site int) {
		t := s.Cur
		if t == nil {
			return
		}
		t.Site = pkg<<20 | site
		if s.siteEnabled(pkg, site) {
			s.yield("stmt")
		}
	}
	hook.BlockFn = func(what string, ready func() bool) { s.block(what, ready) }
	hook.SeamFn = func(what string) {
		if s.Cur != nil {
			s.Probes["pool_seam"]++
			s.yield(what)
		}
	}
	hook.ResetPools()
	hook.LockEvent = func(l any, d int) {
		if t := s.Cur; t != nil {
			t.Locks += d
			t.LockTouched = true
			if s.race != nil {
				s.race.lockEvent(t, l, d)
			}
		}
	}
	hook.GoFn = func(fn func()) {
		parent := s.Cur
		if parent == nil {
			go fn()
			return
		}
		s.Probes["goroutines_started_by_generated_code"]++
		atomic.StoreInt32(&s.opDone, 1)
		t := s.Go("go:"+parent.Name, parent.Tag, fn)
		t.Parent = parent
		s.yield("go")
	}
	hook.WokeFn = func() { atomic.StoreInt32(&s.opDone, 1) }
	hook.PreFn = func() {
		atomic.StoreInt32(&s.opDone, 1)
		if t := s.Cur; t != nil && t.gid == curGID() {
			s.yield("pre-op")
			s.lk.Lock()
			t.inOp = true
			s.lk.Unlock()
		}
	}
	hook.PostFn = func() {
		atomic.StoreInt32(&s.opDone, 1)
		gid := curGID()
		s.lk.Lock()
		var t *Task
		for _, x := range s.Tasks {
			if x.gid == gid && !x.Done {
				t = x
			}
		}
		if t == nil {
			s.lk.Unlock()
			return
		}
		if !t.realBlocked {
			t.inOp = false
			s.lk.Unlock()
			return
		}
		t.postParked = true // the scheduler took the slot away while the operation was blocked: wait to be picked
		s.lk.Unlock()
		<-t.wake
	}
	hook.SelectOrderFn = func(n int) []int {
		order := make([]int, n)
		for i := range order {
			order[i] = i
		}
		if s.Cur == nil {
			return order
		}
		for i := 0; i < n-1; i++ {
			if j := i + s.T.Choose(n-i, "select-order"); j != i {
				order[i], order[j] = order[j], order[i]
			}
		}
		return order
	}
	hook.AccFn, hook.PoolEvent = nil, nil
	if s.race != nil {
		hook.AccFn = func(pkg, site int, keep any, addr, size uintptr, label string, write, isMap bool) {
			if t := s.Cur; t != nil {
				s.race.access(t, pkg, site, keep, addr, size, label, write, isMap)
			}
		}
		hook.PoolEvent = func(p any, put bool) {
			if t := s.Cur; t != nil {
				s.race.poolEvent(t, p, put)
			}
		}
	}
}

func Uninstall() {
	hook.YieldFn, hook.BlockFn, hook.LockEvent, hook.SeamFn, hook.AccFn, hook.PoolEvent = nil, nil, nil, nil, nil, nil
	hook.GoFn, hook.PreFn, hook.PostFn, hook.SelectOrderFn, hook.WokeFn = nil, nil, nil, nil, nil
}

// Run drives the tasks until all are done.
func (s *Sched) Run() error {
	stallChecks := 0
	for {
		if s.RealBlock {
			// (re-confirming only after steps that bracketed an operation was tried and is not enough: measured
			// divergences between GOMAXPROCS 1 and 4)
			s.settle()
		}
		var runnable []*Task
		unfinished := 0
		for _, t := range s.Tasks {
			if t.Done {
				continue
			}
			unfinished++
			if t.realBlocked && !t.postParked {
				continue // blocked in a real operation of the generated code
			}
			if t.blocked == nil {
				runnable = append(runnable, t)
			} else if t.blocked() {
				t.blocked = nil
				runnable = append(runnable, t)
			}
		}
		if unfinished == 0 {
			return nil
		}
		if len(runnable) == 0 {
			if s.RealBlock && stallChecks < 200 {
				// a task may be on its way out of a real operation: a stall is only declared on a settled system
				stallChecks++
				time.Sleep(50 * time.Microsecond)
				s.settle()
				continue
			}
			return ErrStall
		}
		stallChecks = 0
		// the task that ran last comes first: choice 0 = keep going
		if s.last != nil {
			for i, t := range runnable {
				if t == s.last {
					copy(runnable[1:i+1], runnable[:i])
					runnable[0] = t
					break
				}
			}
		}
		idx := 0
		if len(runnable) > 1 {
			lastRunnable := runnable[0] == s.last
			switch {
			case s.Strategy == 0 && lastRunnable:
				if s.T.Flip(1, 6, "switch") {
					idx = 1 + s.T.Choose(len(runnable)-1, "to")
				}
			default:
				idx = s.T.Choose(len(runnable), "pick")
			}
		}
		t := runnable[idx]
		if Debug != nil {
			var names []string
			for _, r := range runnable {
				names = append(names, r.Name)
			}
			var rb []string
			for _, x := range s.Tasks {
				if !x.Done && x.realBlocked {
					rb = append(rb, fmt.Sprintf("%s(parked=%v)", x.Name, x.postParked))
				}
			}
			Debug(fmt.Sprintf("step %d pick %s among %v real-blocked %v", s.Steps, t.Name, names, rb))
		}
		if t != s.last && s.last != nil {
			s.Switches++
			s.SwitchHash = s.SwitchHash*1099511628211 ^ uint64(t.ID)<<40 ^ uint64(t.Site)
			if s.last.Site != 0 && t.Site != 0 && !s.last.Done {
				s.Pairs[uint64(s.last.Site)<<32|uint64(t.Site)] = struct{}{}
				if s.SameFunc != nil && s.SameFunc(s.last.Site, t.Site) {
					s.Probes["two_tasks_inside_same_generated_function"]++
				}
			}
		}
		s.Cur, s.last = t, t
		if t.postParked {
			s.lk.Lock()
			t.postParked, t.realBlocked, t.inOp = false, false, false
			s.lk.Unlock()
		}
		t.wake <- struct{}{}
		s.awaitStep(t)
		s.Cur = nil
		s.Steps++
		if s.AfterStep != nil {
			s.AfterStep(t)
		}
		if s.Steps > s.StepCap {
			return ErrStepCap
		}
	}
}

// Blocked lists the unfinished tasks (for stall reports).
func (s *Sched) Blocked() []string {
	var out []string
	for _, t := range s.Tasks {
		if !t.Done {
			extra := ""
			if s.RealBlock {
				extra = fmt.Sprintf(" (in-op=%v real-blocked=%v parked-after-op=%v waiting-for-condition=%v goroutine=%d:%s)", t.inOp, t.realBlocked, t.postParked, t.blocked != nil, t.gid, goroutineWhere(t.gid))
			}
			out = append(out, fmt.Sprintf("%s waiting on %s%s", t.Name, t.What, extra))
		}
	}
	return out
}

// ---- real blocking operations of the generated code ------------------------------------------------

type spinLock struct{ v int32 }

func (l *spinLock) Lock() {
	for !atomic.CompareAndSwapInt32(&l.v, 0, 1) {
		runtime.Gosched()
	}
}
func (l *spinLock) Unlock() { atomic.StoreInt32(&l.v, 0) }

func curGID() int64 {
	var buf [64]byte
	b := buf[:runtime.Stack(buf[:], false)]
	b = bytes.TrimPrefix(b, []byte("goroutine "))
	if i := bytes.IndexByte(b, ' '); i > 0 {
		id, _ := strconv.ParseInt(string(b[:i]), 10, 64)
		return id
	}
	return -1
}

// blockedGoroutines: goroutine id -> parked by the runtime on a channel, select or sync primitive.
func blockedGoroutines() map[int64]bool {
	buf := make([]byte, 1<<16)
	for {
		n := runtime.Stack(buf, true)
		if n < len(buf) {
			buf = buf[:n]
			break
		}
		buf = make([]byte, 2*len(buf))
	}
	out := map[int64]bool{}
	for _, line := range bytes.Split(buf, []byte("\n")) {
		if !bytes.HasPrefix(line, []byte("goroutine ")) {
			continue
		}
		rest := line[len("goroutine "):]
		i, j := bytes.IndexByte(rest, ' '), bytes.IndexByte(rest, '[')
		if i < 0 || j < 0 {
			continue
		}
		id, err := strconv.ParseInt(string(rest[:i]), 10, 64)
		if err != nil {
			continue
		}
		st := rest[j+1:]
		for _, p := range []string{"chan receive", "chan send", "select", "sync.", "semacquire"} {
			if bytes.HasPrefix(st, []byte(p)) {
				out[id] = true
			}
		}
	}
	return out
}

// awaitStep waits until the released task gives the slot back - by yielding, by finishing, or (packages with
// goroutines of their own) by being found blocked inside a bracketed real operation.
func (s *Sched) awaitStep(t *Task) {
	if !s.RealBlock {
		if got := <-s.back; got != t {
			panic(fmt.Sprintf("sim: task %s gave the slot back while %s held it", got.Name, t.Name))
		}
		return
	}
	for {
		select {
		case got := <-s.back:
			if got != t {
				panic(fmt.Sprintf("sim: task %s (in-op=%v real-blocked=%v parked=%v, %s) gave the slot back while %s held it", got.Name, got.inOp, got.realBlocked, got.postParked, got.What, t.Name))
			}
			return
		case <-time.After(100 * time.Microsecond):
			// one consistent look, under the lock that Post() needs: a task that has left the operation (and may be
			// "blocked" handing the slot back to us) is no longer in-op; a task that is in-op and parked by the runtime
			// is blocked in the operation itself
			s.lk.Lock()
			blocked := t.inOp && blockedGoroutines()[t.gid]
			if blocked {
				t.realBlocked = true
			}
			s.lk.Unlock()
			if blocked {
				s.Probes["task_blocked_in_a_real_operation_of_generated_code"]++
				return
			}
		}
	}
}

// settle waits until every task that was blocked in a real operation is either still blocked or has come back
// and parked in Post(): only then is the set of runnable tasks a function of the schedule alone.
func (s *Sched) settle() {
	for spins := 0; ; spins++ {
		s.lk.Lock()
		var transit []*Task
		for _, t := range s.Tasks {
			if !t.Done && t.realBlocked && !t.postParked {
				transit = append(transit, t)
			}
		}
		ok := true
		if len(transit) > 0 {
			// the dump is taken under the lock Post() needs, so "parked" cannot change under our feet
			dump := blockedGoroutines()
			for _, t := range transit {
				if !dump[t.gid] {
					ok = false // woken, on its way to Post()
				}
			}
		}
		s.lk.Unlock()
		if ok {
			return
		}
		if spins > 200000 {
			panic("sim: a task left a blocking operation and never reached hook.Post()")
		}
		time.Sleep(20 * time.Microsecond)
	}
}

// goroutineWhere: state and innermost non-runtime frames of one goroutine (diagnostics of a stall).
func goroutineWhere(gid int64) string {
	buf := make([]byte, 1<<20)
	buf = buf[:runtime.Stack(buf, true)]
	head := []byte(fmt.Sprintf("goroutine %d [", gid))
	i := bytes.Index(buf, head)
	if i < 0 {
		return "gone"
	}
	rest := buf[i:]
	if j := bytes.Index(rest, []byte("\n\n")); j > 0 {
		rest = rest[:j]
	}
	lines := bytes.Split(rest, []byte("\n"))
	var out []string
	for k, l := range lines {
		if k == 0 {
			out = append(out, string(l))
			continue
		}
		if len(l) > 0 && l[0] != '\t' && !bytes.HasPrefix(l, []byte("runtime.")) && len(out) < 6 {
			out = append(out, string(l))
		}
	}
	return fmt.Sprint(out)
}

// LeakedBlocked counts tasks that are still blocked in a real operation of the generated code: their goroutines can
// never be reclaimed and make every later goroutine dump slower.
func (s *Sched) LeakedBlocked() int {
	n := 0
	for _, t := range s.Tasks {
		if !t.Done && t.realBlocked && !t.postParked {
			n++
		}
	}
	return n
}
