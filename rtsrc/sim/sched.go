// Package sim is the deterministic scheduler, network and HTTP server shell of
// rtsim. Tasks are real goroutines, but exactly one is released at a time and
// every hand-over is decided by the choice tape, so a run is a pure function of it.
package sim

import (
	"errors"
	"fmt"
	"hash/fnv"

	"verifsim/hook"
	"verifsim/tape"
)

type Task struct {
	ID      int
	Name    string
	Tag     string
	wake    chan struct{}
	Done    bool
	blocked func() bool
	What    string
	Steps   int
	Locks   int
	LockTouched bool // acquired or released a simulator-tracked lock since the last shared-state check
	Panic   any
	PanicStack string
	Site    int // last yield site (pkg<<20|site), 0 = a seam outside generated code
	started bool
	fn      func()
	vc      vclock
	OnOwnStep func(n int) // called on the task's goroutine at each of its yields (own-progress anchored faults)
}

type Sched struct {
	T        *tape.Tape
	Tasks    []*Task
	Cur      *Task
	last     *Task
	back     chan struct{}
	Steps    int
	StepCap  int
	Strategy int // 0 sticky, 1 uniform
	SitePct  int // percentage of yield sites enabled
	Salt     uint64
	Switches int
	SwitchHash uint64
	Pairs    map[uint64]struct{} // (site parked, site resumed) across context switches
	SameFunc func(a, b int) bool
	Probes   map[string]int
	AfterStep func(t *Task) // scheduler goroutine, after every step
	Log      []string
	LogOn    bool
	race     *raceDet
}

var ErrStall = errors.New("stall: unfinished tasks but nothing runnable")
var ErrStepCap = errors.New("step cap exceeded")

func New(t *tape.Tape) *Sched {
	return &Sched{T: t, back: make(chan struct{}), StepCap: 2_000_000, SitePct: 100, Pairs: map[uint64]struct{}{}, Probes: map[string]int{}}
}

func (s *Sched) Logf(f string, a ...any) {
	if s.LogOn {
		s.Log = append(s.Log, fmt.Sprintf("#%d ", s.Steps)+fmt.Sprintf(f, a...))
	}
}

// Go creates a task; it starts running when the scheduler first picks it.
func (s *Sched) Go(name, tag string, fn func()) *Task {
	t := &Task{ID: len(s.Tasks), Name: name, Tag: tag, wake: make(chan struct{}), fn: fn}
	if p := s.Cur; p != nil {
		t.vc.join(p.vc) // creation happens before everything the new task does
		p.tick()
	}
	t.vc.set(t.ID, 1)
	s.Tasks = append(s.Tasks, t)
	go func() {
		<-t.wake
		defer func() {
			if r := recover(); r != nil {
				t.Panic = r
			}
			if s.race != nil {
				s.race.hand.join(t.vc)
			}
			t.Done = true
			s.back <- struct{}{}
		}()
		t.fn()
	}()
	return t
}

// Yield is a harness seam: it publishes the task's clock (see race.go) and hands control back.
func (s *Sched) Yield(what string) {
	s.Publish()
	s.yield(what)
}

// yield hands control back to the scheduler. Only the current task may call it.
func (s *Sched) yield(what string) {
	t := s.Cur
	if t == nil {
		return
	}
	t.Steps++
	if t.OnOwnStep != nil {
		t.OnOwnStep(t.Steps)
	}
	t.What = what
	s.back <- struct{}{}
	<-t.wake
}

// Block is a harness wait: what other tasks published before it ends happens before what follows.
func (s *Sched) Block(what string, ready func() bool) {
	s.Publish()
	s.block(what, ready)
	if t := s.Cur; t != nil {
		s.acquireHand(t)
	}
}

// block parks the current task until ready() holds (evaluated by the scheduler).
func (s *Sched) block(what string, ready func() bool) {
	t := s.Cur
	if t == nil {
		if !ready() {
			panic("sim: Block outside a task: " + what)
		}
		return
	}
	if ready() {
		return
	}
	if t.Locks > 0 {
		s.Probes["blocked_while_holding_lock"]++
	}
	t.blocked = ready
	t.What = what
	t.Steps++
	s.back <- struct{}{}
	<-t.wake
}

func (s *Sched) siteEnabled(pkg, site int) bool {
	if s.SitePct >= 100 {
		return true
	}
	h := fnv.New64a()
	var b [24]byte
	for i := 0; i < 8; i++ {
		b[i] = byte(s.Salt >> (8 * i))
		b[8+i] = byte(uint64(pkg) >> (8 * i))
		b[16+i] = byte(uint64(site) >> (8 * i))
	}
	h.Write(b[:])
	return int(h.Sum64()%100) < s.SitePct
}

// Install points the hook package at this scheduler.
func (s *Sched) Install() {
	hook.YieldFn = func(pkg, site int) {
		t := s.Cur
		if t == nil {
			return
		}
		t.Site = pkg<<20 | site
		if s.siteEnabled(pkg, site) {
			s.yield("stmt")
		}
	}
	hook.BlockFn = func(what string, ready func() bool) { s.block(what, ready) }
	hook.SeamFn = func(what string) {
		if s.Cur != nil {
			s.Probes["pool_seam"]++
			s.yield(what)
		}
	}
	hook.ResetPools()
	hook.LockEvent = func(l any, d int) {
		if t := s.Cur; t != nil {
			t.Locks += d
			t.LockTouched = true
			if s.race != nil {
				s.race.lockEvent(t, l, d)
			}
		}
	}
	hook.AccFn, hook.PoolEvent = nil, nil
	if s.race != nil {
		hook.AccFn = func(pkg, site int, keep any, addr, size uintptr, label string, write, isMap bool) {
			if t := s.Cur; t != nil {
				s.race.access(t, pkg, site, keep, addr, size, label, write, isMap)
			}
		}
		hook.PoolEvent = func(p any, put bool) {
			if t := s.Cur; t != nil {
				s.race.poolEvent(t, p, put)
			}
		}
	}
}

func Uninstall() {
	hook.YieldFn, hook.BlockFn, hook.LockEvent, hook.SeamFn, hook.AccFn, hook.PoolEvent = nil, nil, nil, nil, nil, nil
}

// Run drives the tasks until all are done.
func (s *Sched) Run() error {
	for {
		var runnable []*Task
		unfinished := 0
		for _, t := range s.Tasks {
			if t.Done {
				continue
			}
			unfinished++
			if t.blocked == nil {
				runnable = append(runnable, t)
			} else if t.blocked() {
				t.blocked = nil
				runnable = append(runnable, t)
			}
		}
		if unfinished == 0 {
			return nil
		}
		if len(runnable) == 0 {
			return ErrStall
		}
		// the task that ran last comes first: choice 0 = keep going
		if s.last != nil {
			for i, t := range runnable {
				if t == s.last {
					copy(runnable[1:i+1], runnable[:i])
					runnable[0] = t
					break
				}
			}
		}
		idx := 0
		if len(runnable) > 1 {
			lastRunnable := runnable[0] == s.last
			switch {
			case s.Strategy == 0 && lastRunnable:
				if s.T.Flip(1, 6, "switch") {
					idx = 1 + s.T.Choose(len(runnable)-1, "to")
				}
			default:
				idx = s.T.Choose(len(runnable), "pick")
			}
		}
		t := runnable[idx]
		if t != s.last && s.last != nil {
			s.Switches++
			s.SwitchHash = s.SwitchHash*1099511628211 ^ uint64(t.ID)<<40 ^ uint64(t.Site)
			if s.last.Site != 0 && t.Site != 0 && !s.last.Done {
				s.Pairs[uint64(s.last.Site)<<32|uint64(t.Site)] = struct{}{}
				if s.SameFunc != nil && s.SameFunc(s.last.Site, t.Site) {
					s.Probes["two_tasks_inside_same_generated_function"]++
				}
			}
		}
		s.Cur, s.last = t, t
		t.wake <- struct{}{}
		<-s.back
		s.Cur = nil
		s.Steps++
		if s.AfterStep != nil {
			s.AfterStep(t)
		}
		if s.Steps > s.StepCap {
			return ErrStepCap
		}
	}
}

// Blocked lists the unfinished tasks (for stall reports).
func (s *Sched) Blocked() []string {
	var out []string
	for _, t := range s.Tasks {
		if !t.Done {
			out = append(out, fmt.Sprintf("%s waiting on %s", t.Name, t.What))
		}
	}
	return out
}
