package tape

import "time"

// Shrink minimises vals while still(vals) stays true. still must be
// deterministic. Passes: delete blocks, zero blocks, lower single values.
func Shrink(vals []uint32, still func([]uint32) bool, budget time.Duration) []uint32 {
	deadline := time.Now().Add(budget)
	cur := append([]uint32(nil), vals...)
	// strip trailing zeros: a replay tape yields 0 past its end
	trim := func(v []uint32) []uint32 {
		for len(v) > 0 && v[len(v)-1] == 0 {
			v = v[:len(v)-1]
		}
		return v
	}
	cur = trim(cur)
	try := func(c []uint32) bool {
		if time.Now().After(deadline) {
			return false
		}
		c = trim(c)
		if still(c) {
			cur = append([]uint32(nil), c...)
			return true
		}
		return false
	}
	for improved := true; improved && time.Now().Before(deadline); {
		improved = false
		for _, bs := range []int{64, 32, 16, 8, 4, 2, 1} {
			for i := 0; i+bs <= len(cur); {
				c := append(append([]uint32(nil), cur[:i]...), cur[i+bs:]...)
				if try(c) {
					improved = true
				} else {
					i += bs
				}
			}
		}
		for _, bs := range []int{16, 4, 1} {
			for i := 0; i+bs <= len(cur); i += bs {
				allZero := true
				for _, v := range cur[i : i+bs] {
					if v != 0 {
						allZero = false
					}
				}
				if allZero {
					continue
				}
				c := append([]uint32(nil), cur...)
				for j := i; j < i+bs; j++ {
					c[j] = 0
				}
				if try(c) {
					improved = true
				}
			}
		}
		for i := 0; i < len(cur); i++ {
			if cur[i] == 0 {
				continue
			}
			lo, hi := uint32(0), cur[i] // invariant: hi works
			for lo < hi {
				mid := lo + (hi-lo)/2
				c := append([]uint32(nil), cur...)
				if i >= len(c) {
					break
				}
				c[i] = mid
				if try(c) {
					hi = mid
					improved = true
					if i >= len(cur) {
						break
					}
				} else {
					lo = mid + 1
				}
			}
		}
	}
	return cur
}
