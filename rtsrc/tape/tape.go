// Package tape is the single source of every nondeterministic choice made in a
// simulated run. In generate mode values come from a PCG seeded from
// (VERIF_SEED, stream, run); every reduced value is recorded. In replay mode the
// recorded values are fed back (value % n); past the end the tape yields 0.
// Every generator is written so that 0 is the simplest choice.
package tape

import (
	"hash/fnv"
	"math/rand/v2"
)

type Tape struct {
	rng    *rand.Rand
	replay []uint32
	isRep  bool
	pos    int
	Rec    []uint32
	// Trace, when non-nil, receives (label, n, value) for every draw. It never draws.
	Trace func(label string, n, v int)
	// Overrun counts draws past the end of a replay tape.
	Overrun int
}

func Mix(seed uint64, stream string, run uint64) (uint64, uint64) {
	h := fnv.New64a()
	h.Write([]byte(stream))
	s := h.Sum64()
	a := seed*0x9E3779B97F4A7C15 ^ s
	b := run*0xD1B54A32D192ED03 + s ^ (seed << 17)
	return a, b
}

func NewGen(seed uint64, stream string, run uint64) *Tape {
	a, b := Mix(seed, stream, run)
	return &Tape{rng: rand.New(rand.NewPCG(a, b))}
}

func NewReplay(vals []uint32) *Tape {
	return &Tape{replay: vals, isRep: true}
}

// Zero returns a tape that always answers 0.
func Zero() *Tape { return NewReplay(nil) }

func (t *Tape) Replaying() bool { return t.isRep }

// Choose returns a value in [0,n). n<=1 consumes nothing.
func (t *Tape) Choose(n int, label string) int {
	if n <= 1 {
		return 0
	}
	var v int
	if t.isRep {
		if t.pos < len(t.replay) {
			v = int(t.replay[t.pos] % uint32(n))
		} else {
			t.Overrun++
		}
		t.pos++
	} else {
		v = int(t.rng.Uint32N(uint32(n)))
	}
	t.Rec = append(t.Rec, uint32(v))
	if t.Trace != nil {
		t.Trace(label, n, v)
	}
	return v
}

// Flip returns true with probability num/den; the 0 value maps to false.
func (t *Tape) Flip(num, den int, label string) bool {
	if num <= 0 {
		return false
	}
	return t.Choose(den, label) >= den-num
}

// Perm draws a Fisher-Yates permutation of n elements; all-zero draws = identity.
func (t *Tape) Perm(n int, label string) []int {
	p := make([]int, n)
	for i := range p {
		p[i] = i
	}
	for i := 0; i < n-1; i++ {
		j := i + t.Choose(n-i, label)
		p[i], p[j] = p[j], p[i]
	}
	return p
}

// Pos is the number of draws so far.
func (t *Tape) Pos() int { return len(t.Rec) }
