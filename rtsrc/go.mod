module verifsim

go 1.23

require (
	github.com/getkin/kin-openapi v0.38.0
	github.com/ghodss/yaml v1.0.0 // indirect
	github.com/go-openapi/jsonpointer v0.19.5 // indirect
	github.com/go-openapi/swag v0.19.5 // indirect
	github.com/mailru/easyjson v0.0.0-20190626092158-b2ccc519800e // indirect
	gopkg.in/yaml.v2 v2.4.0 // indirect
)
