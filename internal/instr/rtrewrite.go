package instr

import (
	"fmt"
	"go/ast"
	"go/token"
	"go/types"
	"os"
	"path/filepath"
	"sort"
	"strings"
)

const RTHook = "verifsim/hook"

type YSite struct {
	ID   int    `json:"id"`
	File string `json:"file"`
	Func string `json:"func"`
	Line int    `json:"line"`
}

type RTPkgReport struct {
	Name           string   `json:"name"`
	PkgID          int      `json:"pkg_id"`
	ImportPath     string   `json:"import_path"`
	Yields         []YSite  `json:"yields"`
	MapSites       []Site   `json:"map_sites"`
	SyncCalls      int      `json:"sync_calls_rewritten"`
	SyncOther      []string `json:"sync_unsimulated"`
	GoStmts        int      `json:"go_stmts"`
	Selects        int      `json:"selects"`
	ChanOps        int      `json:"chan_ops"`
	Globals        []string `json:"globals"`
	Types          []string `json:"types"`
	Funcs          []string `json:"funcs"`
	OneOf          []string `json:"one_of"`
	UsesSync       bool     `json:"uses_sync"`
	Accesses       int      `json:"accesses_reported"`
	GoRewritten    int      `json:"go_stmts_turned_into_tasks"`
	SyncBracketed  int      `json:"blocking_statements_bracketed"`
	SyncUnmodelled []string `json:"blocking_operations_not_modelled"`
	SelectsPolled  int      `json:"selects_polled_in_tape_order"`
}

// InstrumentGenerated inserts statement-level yields, pins map iteration order and
// emits a reflection registry into every package matched by pattern under simDir.
func InstrumentGenerated(simDir, pattern string) ([]*RTPkgReport, error) {
	pkgs, err := loadPkgs(simDir, pattern)
	if err != nil {
		return nil, err
	}
	var out []*RTPkgReport
	for pi, pkg := range pkgs {
		rep := &RTPkgReport{Name: filepath.Base(pkg.PkgPath), PkgID: pi + 1, ImportPath: pkg.PkgPath}
		files := append([]*ast.File(nil), pkg.Syntax...)
		sort.Slice(files, func(i, j int) bool {
			return pkg.Fset.Position(files[i].Pos()).Filename < pkg.Fset.Position(files[j].Pos()).Filename
		})
		var pkgDir string
		gr := &GenReport{}
		mapID := 1
		for _, f := range files {
			fn := pkg.Fset.Position(f.Pos()).Filename
			pkgDir = filepath.Dir(fn)
			rel := filepath.Base(fn)
			src, err := os.ReadFile(fn)
			if err != nil {
				return nil, err
			}
			es := &editSet{src: src}
			// 1. map ranges pinned to sorted order (same rewriter as gensim, other hook package)
			w := &genWalker{pkg: pkg, file: f, rel: rel, es: es, rep: gr, nextID: &mapID, hookPath: RTHook, rtMode: true}
			w.runRangesOnly()
			// 2. yields, sync calls, inventory
			y := &rtWalker{w: w, rep: rep}
			y.run()
			if w.needHook || y.needHook {
				es.insert(w.off(f.Name.End()), `; import verifhook "`+RTHook+`"`)
			}
			if len(es.edits) == 0 {
				continue
			}
			res, err := es.apply()
			if err != nil {
				return nil, fmt.Errorf("%s: %w", fn, err)
			}
			if err := os.WriteFile(fn, res, 0o644); err != nil {
				return nil, err
			}
		}
		rep.MapSites = gr.Sites
		rep.GoRewritten, rep.SyncBracketed, rep.SyncUnmodelled, rep.SelectsPolled = gr.GoRewritten, gr.SyncBracketed, gr.SyncUnmodelled, gr.SelectsPolled
		// 3. registry
		collectDecls(pkg.Syntax, rep)
		if err := os.WriteFile(filepath.Join(pkgDir, "verif_registry.go"), []byte(registrySource(pkg.Name, rep)), 0o644); err != nil {
			return nil, err
		}
		out = append(out, rep)
	}
	return out, nil
}

// runRangesOnly applies only the map-range rewrite (no os/time/rand rewriting).
func (w *genWalker) runRangesOnly() {
	w.perFunc = map[string]int{}
	var stack []ast.Node
	curFunc := func() string {
		for i := len(stack) - 1; i >= 0; i-- {
			if fd, ok := stack[i].(*ast.FuncDecl); ok {
				return funcName(fd)
			}
		}
		return "init"
	}
	ast.Inspect(w.file, func(n ast.Node) bool {
		if n == nil {
			stack = stack[:len(stack)-1]
			return true
		}
		stack = append(stack, n)
		if r, ok := n.(*ast.RangeStmt); ok {
			if m, ok := isMap(w.pkg.TypesInfo.TypeOf(r.X)); ok {
				w.rewriteRange(r, m, stack, curFunc())
			}
		}
		return true
	})
}

type rtWalker struct {
	w        *genWalker
	rep      *RTPkgReport
	needHook bool
}

func (y *rtWalker) run() {
	w := y.w
	info := w.pkg.TypesInfo
	for _, is := range w.file.Imports {
		if is.Path.Value == `"sync"` || is.Path.Value == `"sync/atomic"` {
			y.rep.UsesSync = true
		}
		if is.Path.Value == `"sync/atomic"` {
			y.rep.SyncOther = append(y.rep.SyncOther, w.rel+": imports sync/atomic")
		}
	}
	var funcStack []string
	var litStack []*ast.FuncLit
	skip := map[*ast.BlockStmt]bool{} // bodies of switch/select hold clauses, not statements
	var visit func(n ast.Node) bool
	addYields := func(list []ast.Stmt) {
		fn := "init"
		if len(funcStack) > 0 {
			fn = funcStack[len(funcStack)-1]
		}
		for _, st := range list {
			id := len(y.rep.Yields) + 1
			y.rep.Yields = append(y.rep.Yields, YSite{ID: id, File: w.rel, Func: fn, Line: w.pkg.Fset.Position(st.Pos()).Line})
			text := fmt.Sprintf("verifhook.Y(%d, %d); ", y.rep.PkgID, id)
			var encl *ast.FuncLit
			if len(litStack) > 0 {
				encl = litStack[len(litStack)-1]
			}
			for _, a := range y.stmtAccesses(st, encl) {
				fnName := "R"
				if a.write {
					fnName = "W"
				}
				if a.isMap {
					text += fmt.Sprintf("verifhook.%sM(%d, %d, func() any { return %s }, %q); ", fnName, y.rep.PkgID, id, a.expr, a.label)
				} else {
					text += fmt.Sprintf("verifhook.%sA(%d, %d, func() any { return &(%s) }, %q); ", fnName, y.rep.PkgID, id, a.expr, a.label)
				}
				y.rep.Accesses++
			}
			w.es.insert(w.off(st.Pos()), text)
			y.needHook = true
		}
	}
	visit = func(n ast.Node) bool {
		switch x := n.(type) {
		case *ast.FuncDecl:
			if x.Body == nil {
				return false
			}
			funcStack = append(funcStack, funcName(x))
			ast.Inspect(x.Body, visit)
			funcStack = funcStack[:len(funcStack)-1]
			return false
		case *ast.FuncLit:
			litStack = append(litStack, x)
			ast.Inspect(x.Body, visit)
			litStack = litStack[:len(litStack)-1]
			return false
		case *ast.SwitchStmt:
			skip[x.Body] = true
		case *ast.TypeSwitchStmt:
			skip[x.Body] = true
		case *ast.BlockStmt:
			if !skip[x] {
				addYields(x.List)
				w.concList(x.List)
			}
		case *ast.CaseClause:
			addYields(x.Body)
			w.concList(x.Body)
		case *ast.CommClause:
			addYields(x.Body)
			w.concList(x.Body)
		case *ast.GoStmt:
			y.rep.GoStmts++
		case *ast.SelectStmt:
			skip[x.Body] = true
			y.rep.Selects++
		case *ast.SendStmt:
			y.rep.ChanOps++
		case *ast.UnaryExpr:
			if x.Op == token.ARROW {
				y.rep.ChanOps++
			}
		case *ast.CallExpr:
			sel, ok := x.Fun.(*ast.SelectorExpr)
			if !ok {
				return true
			}
			s, ok := info.Selections[sel]
			if !ok || s.Kind() != types.MethodVal {
				return true
			}
			recv := s.Recv()
			ptr := false
			if p, ok := recv.(*types.Pointer); ok {
				recv, ptr = p.Elem(), true
			}
			named, ok := recv.(*types.Named)
			if !ok || named.Obj().Pkg() == nil || named.Obj().Pkg().Path() != "sync" {
				// method promoted through embedding from sync?
				if f, ok := s.Obj().(*types.Func); ok && f.Pkg() != nil && f.Pkg().Path() == "sync" {
					y.rep.SyncOther = append(y.rep.SyncOther, fmt.Sprintf("%s:%d %s (embedded)", w.rel, w.pkg.Fset.Position(x.Pos()).Line, sel.Sel.Name))
				}
				return true
			}
			tn := named.Obj().Name()
			m := sel.Sel.Name
			if (tn == "Mutex" || tn == "RWMutex") && (m == "Lock" || m == "Unlock" || m == "RLock" || m == "RUnlock") && len(s.Index()) == 1 && len(x.Args) == 0 {
				amp := "&"
				if ptr {
					amp = ""
				}
				fnName := "Mu" + m
				if tn == "RWMutex" {
					fnName = "RW" + m
				}
				w.es.replace(w.off(x.Pos()), w.off(sel.X.Pos()), "verifhook."+fnName+"("+amp)
				w.es.replace(w.off(sel.X.End()), w.off(x.End()), ")")
				y.rep.SyncCalls++
				y.needHook = true
			} else if tn == "Pool" && (m == "Get" || m == "Put") && len(s.Index()) == 1 {
				amp := "&"
				if ptr {
					amp = ""
				}
				sep := ""
				if len(x.Args) > 0 {
					sep = ", "
				}
				w.es.replace(w.off(x.Pos()), w.off(sel.X.Pos()), "verifhook.Pool"+m+"("+amp)
				w.es.replace(w.off(sel.X.End()), w.off(x.Lparen)+1, sep)
				y.rep.SyncCalls++
				y.needHook = true
			} else {
				y.rep.SyncOther = append(y.rep.SyncOther, fmt.Sprintf("%s:%d sync.%s.%s", w.rel, w.pkg.Fset.Position(x.Pos()).Line, tn, m))
			}
		}
		return true
	}
	for _, d := range w.file.Decls {
		ast.Inspect(d, visit)
	}
}

func collectDecls(files []*ast.File, rep *RTPkgReport) {
	structFields := map[string]*ast.StructType{}
	ctors := map[string]int{}
	for _, f := range files {
		for _, d := range f.Decls {
			switch x := d.(type) {
			case *ast.GenDecl:
				for _, sp := range x.Specs {
					switch s := sp.(type) {
					case *ast.TypeSpec:
						if s.TypeParams != nil && len(s.TypeParams.List) > 0 {
							continue
						}
						if s.Assign.IsValid() {
							continue
						}
						rep.Types = append(rep.Types, s.Name.Name)
						if st, ok := s.Type.(*ast.StructType); ok {
							structFields[s.Name.Name] = st
						}
					case *ast.ValueSpec:
						if x.Tok != token.VAR {
							continue
						}
						for _, n := range s.Names {
							if n.Name != "_" {
								rep.Globals = append(rep.Globals, n.Name)
							}
						}
					}
				}
			case *ast.FuncDecl:
				if x.Recv != nil || x.Name.Name == "init" || x.Name.Name == "_" {
					continue
				}
				if x.Type.TypeParams != nil && len(x.Type.TypeParams.List) > 0 {
					continue
				}
				rep.Funcs = append(rep.Funcs, x.Name.Name)
				// oneOf constructor: func New<T><Field>(v X) T
				if strings.HasPrefix(x.Name.Name, "New") && x.Type.Results != nil && len(x.Type.Results.List) == 1 && x.Type.Params != nil && len(x.Type.Params.List) == 1 {
					if id, ok := x.Type.Results.List[0].Type.(*ast.Ident); ok && strings.HasPrefix(x.Name.Name, "New"+id.Name) && len(x.Name.Name) > len("New"+id.Name) {
						ctors[id.Name]++
					}
				}
			}
		}
	}
	for name, st := range structFields {
		if ctors[name] == 0 || st.Fields == nil || len(st.Fields.List) == 0 {
			continue
		}
		nf := 0
		all := true
		for _, fl := range st.Fields.List {
			nf += len(fl.Names)
			ix, ok := fl.Type.(*ast.IndexExpr)
			if !ok {
				all = false
				break
			}
			switch t := ix.X.(type) {
			case *ast.Ident:
				if !strings.HasSuffix(t.Name, "Maybe") {
					all = false
				}
			case *ast.SelectorExpr:
				if !strings.HasSuffix(t.Sel.Name, "Maybe") {
					all = false
				}
			default:
				all = false
			}
		}
		if all && nf == ctors[name] {
			rep.OneOf = append(rep.OneOf, name)
		}
	}
	sort.Strings(rep.Types)
	sort.Strings(rep.Globals)
	sort.Strings(rep.Funcs)
	sort.Strings(rep.OneOf)
}

func registrySource(pkgName string, rep *RTPkgReport) string {
	var b strings.Builder
	fmt.Fprintf(&b, "package %s\n\nimport \"reflect\"\n\n", pkgName)
	b.WriteString("// VerifRegistry is emitted by the verification harness (scratch copy only).\n")
	b.WriteString("func VerifRegistry() (types map[string]reflect.Type, globals map[string]any, funcs map[string]any, oneOf []string) {\n")
	b.WriteString("\ttypes = map[string]reflect.Type{\n")
	for _, t := range rep.Types {
		fmt.Fprintf(&b, "\t\t%q: reflect.TypeOf((*%s)(nil)).Elem(),\n", t, t)
	}
	b.WriteString("\t}\n\tglobals = map[string]any{\n")
	for _, g := range rep.Globals {
		fmt.Fprintf(&b, "\t\t%q: &%s,\n", g, g)
	}
	b.WriteString("\t}\n\tfuncs = map[string]any{\n")
	for _, f := range rep.Funcs {
		fmt.Fprintf(&b, "\t\t%q: %s,\n", f, f)
	}
	b.WriteString("\t}\n\toneOf = []string{")
	for _, o := range rep.OneOf {
		fmt.Fprintf(&b, "%q, ", o)
	}
	b.WriteString("}\n\treturn\n}\n")
	return b.String()
}
