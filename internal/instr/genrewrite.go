package instr

import (
	"fmt"
	"go/ast"
	"go/token"
	"go/types"
	"os"
	"path/filepath"
	"sort"
	"strconv"
	"strings"

	"golang.org/x/tools/go/packages"
)

const RTBase = "github.com/vkd/goag/verifrt"

// Site is one place in the code under simulation where the Go runtime picks an order.
type Site struct {
	ID         int    `json:"id"`
	File       string `json:"file"`
	Func       string `json:"func"`
	K          int    `json:"k"`    // k-th map-order site in Func (1-based)
	Kind       string `json:"kind"` // range | maps.Keys | maps.Values
	KeyType    string `json:"key_type"`
	Line       int    `json:"line"`
	Controlled bool   `json:"controlled"`
	Note       string `json:"note,omitempty"`
}

func (s Site) Key() string { return fmt.Sprintf("%s:%s:#%d", s.File, s.Func, s.K) }

type GenReport struct {
	Sites          []Site   `json:"sites"`
	OSFiles        []string `json:"os_files"`
	RandFiles      []string `json:"rand_files"`
	TimeRewrites   int      `json:"time_rewrites"`
	GoStmts        int      `json:"go_stmts"`
	Selects        int      `json:"selects"`
	GoRewritten    int      `json:"go_stmts_turned_into_tasks"`
	SyncBracketed  int      `json:"blocking_statements_bracketed"`
	SyncUnmodelled []string `json:"blocking_operations_not_modelled"`
	NumCPURewrites int      `json:"numcpu_rewrites"`
	SelectsPolled  int      `json:"selects_polled_in_tape_order"`
	Uncontrolled   []string `json:"uncontrolled"`
	PerIterLoopVar bool     `json:"per_iteration_loopvar"`
	TemplateProbe  bool     `json:"template_probe"`
	MainFiles      []string `json:"main_files"`
}

func loadPkgs(dir string, patterns ...string) ([]*packages.Package, error) {
	cfg := &packages.Config{
		Dir:  dir,
		Mode: packages.NeedName | packages.NeedFiles | packages.NeedCompiledGoFiles | packages.NeedSyntax | packages.NeedTypes | packages.NeedTypesInfo | packages.NeedModule | packages.NeedImports | packages.NeedDeps,
		Env:  append(os.Environ(), "GOFLAGS=-mod=mod", "GOPROXY=off", "GOSUMDB=off", "GOTOOLCHAIN=local"),
	}
	pkgs, err := packages.Load(cfg, patterns...)
	if err != nil {
		return nil, err
	}
	var errs []string
	for _, p := range pkgs {
		for _, e := range p.Errors {
			errs = append(errs, e.Error())
		}
	}
	if len(errs) > 0 {
		return nil, fmt.Errorf("package load errors: %s", strings.Join(errs, "; "))
	}
	sort.Slice(pkgs, func(i, j int) bool { return pkgs[i].PkgPath < pkgs[j].PkgPath })
	return pkgs, nil
}

func isMap(t types.Type) (*types.Map, bool) {
	if t == nil {
		return nil, false
	}
	switch u := t.Underlying().(type) {
	case *types.Map:
		return u, true
	}
	return nil, false
}

func funcName(fd *ast.FuncDecl) string {
	if fd.Recv != nil && len(fd.Recv.List) > 0 {
		t := fd.Recv.List[0].Type
		for {
			switch x := t.(type) {
			case *ast.StarExpr:
				t = x.X
				continue
			case *ast.IndexExpr:
				t = x.X
				continue
			case *ast.IndexListExpr:
				t = x.X
				continue
			case *ast.ParenExpr:
				t = x.X
				continue
			}
			break
		}
		if id, ok := t.(*ast.Ident); ok {
			return id.Name + "." + fd.Name.Name
		}
	}
	return fd.Name.Name
}

func goVersionAtLeast(v string, major, minor int) bool {
	v = strings.TrimPrefix(v, "go")
	parts := strings.Split(v, ".")
	if len(parts) < 2 {
		return false
	}
	ma, _ := strconv.Atoi(parts[0])
	mi, _ := strconv.Atoi(parts[1])
	return ma > major || (ma == major && mi >= minor)
}

// RewriteGenerator rewrites every package of the module rooted at dir in place
// (dir is a scratch copy): map iteration order, package os, math/rand and the
// clock are routed through verifrt.
func RewriteGenerator(dir string) (*GenReport, error) {
	pkgs, err := loadPkgs(dir, "./...")
	if err != nil {
		return nil, err
	}
	rep := &GenReport{}
	nextID := 1
	for _, pkg := range pkgs {
		if strings.HasPrefix(pkg.PkgPath, RTBase) {
			continue
		}
		if pkg.Module != nil && goVersionAtLeast(pkg.Module.GoVersion, 1, 22) {
			rep.PerIterLoopVar = true
		}
		files := append([]*ast.File(nil), pkg.Syntax...)
		sort.Slice(files, func(i, j int) bool {
			return pkg.Fset.Position(files[i].Pos()).Filename < pkg.Fset.Position(files[j].Pos()).Filename
		})
		for _, f := range files {
			fn := pkg.Fset.Position(f.Pos()).Filename
			if !strings.HasSuffix(fn, ".go") || strings.HasSuffix(fn, "_test.go") {
				continue
			}
			rel, _ := filepath.Rel(dir, fn)
			src, err := os.ReadFile(fn)
			if err != nil {
				return nil, err
			}
			es := &editSet{src: src}
			w := &genWalker{pkg: pkg, file: f, rel: rel, es: es, rep: rep, nextID: &nextID, perIter: rep.PerIterLoopVar, hookPath: RTBase + "/verifhook"}
			w.run()
			if len(es.edits) == 0 {
				continue
			}
			out, err := es.apply()
			if err != nil {
				return nil, fmt.Errorf("%s: %w", rel, err)
			}
			if err := os.WriteFile(fn, out, 0o644); err != nil {
				return nil, err
			}
		}
	}
	return rep, nil
}

type genWalker struct {
	pkg      *packages.Package
	file     *ast.File
	rel      string
	es       *editSet
	rep      *GenReport
	nextID   *int
	perIter  bool
	hookPath string // import path of the hook package

	needHook bool
	perFunc  map[string]int
	selN     int
	rtMode   bool // instrumenting a generated package for rtsim (not the generator for gensim)
}

func (w *genWalker) off(p token.Pos) int { return w.pkg.Fset.Position(p).Offset }
func (w *genWalker) text(n ast.Node) string {
	return string(w.es.src[w.off(n.Pos()):w.off(n.End())])
}

func (w *genWalker) pkgOf(id *ast.Ident) string {
	if obj, ok := w.pkg.TypesInfo.Uses[id]; ok {
		if pn, ok := obj.(*types.PkgName); ok {
			return pn.Imported().Path()
		}
	}
	return ""
}

func (w *genWalker) newSite(fn, kind string, pos token.Pos, keyType string, controlled bool, note string) Site {
	w.perFunc[fn]++
	s := Site{ID: *w.nextID, File: w.rel, Func: fn, K: w.perFunc[fn], Kind: kind, KeyType: keyType,
		Line: w.pkg.Fset.Position(pos).Line, Controlled: controlled, Note: note}
	*w.nextID++
	w.rep.Sites = append(w.rep.Sites, s)
	if !controlled {
		w.rep.Uncontrolled = append(w.rep.Uncontrolled, s.Key()+": "+note)
	}
	return s
}

func (w *genWalker) run() {
	w.perFunc = map[string]int{}
	info := w.pkg.TypesInfo
	// imports
	usesOf := map[string]int{}    // import path -> number of identifier uses in this file
	rewritten := map[string]int{} // import path -> uses rewritten away
	localName := map[string]string{}
	for _, is := range w.file.Imports {
		p, _ := strconv.Unquote(is.Path.Value)
		switch p {
		case "os":
			t := `"` + RTBase + `/simos"`
			if is.Name == nil {
				t = "os " + t
			}
			w.es.replace(w.off(is.Path.Pos()), w.off(is.Path.End()), t)
			w.rep.OSFiles = append(w.rep.OSFiles, w.rel)
		case "math/rand":
			t := `"` + RTBase + `/simrand"`
			if is.Name == nil {
				t = "rand " + t
			}
			w.es.replace(w.off(is.Path.Pos()), w.off(is.Path.End()), t)
			w.rep.RandFiles = append(w.rep.RandFiles, w.rel)
		case "math/rand/v2", "crypto/rand":
			w.rep.Uncontrolled = append(w.rep.Uncontrolled, w.rel+": imports "+p+" (not tape-controlled; only the separate-process comparison can see it)")
		}
		if is.Name != nil {
			localName[p] = is.Name.Name
		}
	}
	ast.Inspect(w.file, func(n ast.Node) bool {
		if id, ok := n.(*ast.Ident); ok {
			if p := w.pkgOf(id); p != "" {
				usesOf[p]++
			}
		}
		return true
	})

	var stack []ast.Node
	curFunc := func() string {
		for i := len(stack) - 1; i >= 0; i-- {
			if fd, ok := stack[i].(*ast.FuncDecl); ok {
				return funcName(fd)
			}
		}
		return "init"
	}
	ast.Inspect(w.file, func(n ast.Node) bool {
		if n == nil {
			stack = stack[:len(stack)-1]
			return true
		}
		stack = append(stack, n)
		switch x := n.(type) {
		case *ast.GoStmt:
			w.rep.GoStmts++
		case *ast.SelectStmt:
			w.rep.Selects++
		case *ast.BlockStmt:
			if len(stack) < 2 {
				break
			}
			switch stack[len(stack)-2].(type) {
			case *ast.SelectStmt, *ast.SwitchStmt, *ast.TypeSwitchStmt:
				// the body of a switch/select holds clauses, not statements
			default:
				w.concList(x.List)
			}
		case *ast.CaseClause:
			w.concList(x.Body)
		case *ast.CommClause:
			w.concList(x.Body)
		case *ast.FuncDecl:
			if x.Name.Name == "main" && x.Recv == nil && w.pkg.Name == "main" {
				w.rep.MainFiles = append(w.rep.MainFiles, w.rel)
				w.es.insert(w.off(w.file.Name.End()), `; import _ "`+RTBase+`/cliplan"`)
			}
			if x.Name.Name == "ExecuteTemplate" && x.Recv == nil && x.Body != nil && x.Type.Params != nil && len(x.Type.Params.List) > 0 {
				p0 := x.Type.Params.List[0]
				if len(p0.Names) > 0 {
					if b, ok := info.TypeOf(p0.Type).(*types.Basic); ok && b.Kind() == types.String {
						w.es.insert(w.off(x.Body.Lbrace)+1, " verifhook.Template("+p0.Names[0].Name+");")
						w.needHook = true
						w.rep.TemplateProbe = true
					}
				}
			}
		case *ast.RangeStmt:
			m, ok := isMap(info.TypeOf(x.X))
			if !ok {
				if tp, ok2 := info.TypeOf(x.X).(*types.TypeParam); ok2 {
					_ = tp
					w.newSite(curFunc(), "range", x.Pos(), "typeparam", false, "range over a type-parameter typed operand")
				}
				return true
			}
			w.rewriteRange(x, m, stack, curFunc())
		case *ast.CallExpr:
			var sel *ast.SelectorExpr
			switch f := x.Fun.(type) {
			case *ast.SelectorExpr:
				sel = f
			case *ast.IndexExpr:
				sel, _ = f.X.(*ast.SelectorExpr)
			case *ast.IndexListExpr:
				sel, _ = f.X.(*ast.SelectorExpr)
			}
			if sel == nil {
				return true
			}
			if id, ok := sel.X.(*ast.Ident); ok {
				p := w.pkgOf(id)
				switch {
				case p == "golang.org/x/exp/maps" && (sel.Sel.Name == "Keys" || sel.Sel.Name == "Values") && len(x.Args) == 1:
					kt := ""
					if m, ok := isMap(info.TypeOf(x.Args[0])); ok {
						kt = m.Key().String()
					}
					s := w.newSite(curFunc(), "maps."+sel.Sel.Name, x.Pos(), kt, true, "")
					w.es.replace(w.off(x.Fun.Pos()), w.off(x.Lparen)+1, fmt.Sprintf("verifhook.Maps%s(%d, ", sel.Sel.Name, s.ID))
					w.needHook = true
					rewritten[p]++
				case p == "maps" && (sel.Sel.Name == "Keys" || sel.Sel.Name == "Values" || sel.Sel.Name == "All"):
					w.newSite(curFunc(), "std maps."+sel.Sel.Name, x.Pos(), "", false, "std maps iterator (not rewritten)")
				case p == "time" && (sel.Sel.Name == "After" || sel.Sel.Name == "NewTimer" || sel.Sel.Name == "AfterFunc" || sel.Sel.Name == "Sleep" || sel.Sel.Name == "Tick" || sel.Sel.Name == "NewTicker"):
					// timers: a process may be stalled for any length of time, so the simulator may let a timer win any race
					w.es.replace(w.off(sel.Pos()), w.off(sel.End()), "verifhook.Time"+sel.Sel.Name)
					w.needHook = true
					w.rep.TimeRewrites++
					rewritten[p]++
				case p == "context" && (sel.Sel.Name == "WithTimeout" || sel.Sel.Name == "WithDeadline"):
					w.es.replace(w.off(sel.Pos()), w.off(sel.End()), "verifhook.Ctx"+sel.Sel.Name)
					w.needHook = true
					w.rep.TimeRewrites++
					rewritten[p]++
				case p == "runtime" && (sel.Sel.Name == "NumCPU" && len(x.Args) == 0 || sel.Sel.Name == "GOMAXPROCS" && len(x.Args) == 1 && w.text(x.Args[0]) == "0"):
					// how many processors there are is part of the ambient environment
					w.es.replace(w.off(x.Pos()), w.off(x.End()), "verifhook.NumCPU()")
					w.needHook = true
					w.rep.NumCPURewrites++
					rewritten[p]++
				case p == "time" && (sel.Sel.Name == "Now" || sel.Sel.Name == "Since" || sel.Sel.Name == "Until"):
					w.es.replace(w.off(sel.Pos()), w.off(sel.End()), "verifhook.Time"+sel.Sel.Name)
					w.needHook = true
					w.rep.TimeRewrites++
					rewritten[p]++
				}
			} else if s, ok := info.Selections[sel]; ok {
				recv := s.Recv().String()
				if (strings.HasSuffix(recv, "reflect.Value") && (sel.Sel.Name == "MapKeys" || sel.Sel.Name == "MapRange")) ||
					(strings.HasSuffix(recv, "sync.Map") && sel.Sel.Name == "Range") {
					w.newSite(curFunc(), recv+"."+sel.Sel.Name, x.Pos(), "", false, "runtime-ordered iteration not rewritten")
				}
			}
		}
		return true
	})

	var tail string
	for p, n := range rewritten {
		if n > 0 && usesOf[p] == n {
			name := localName[p]
			if name == "" {
				name = p[strings.LastIndex(p, "/")+1:]
			}
			switch p {
			case "time":
				tail += "\nvar _ " + name + ".Duration\n"
			case "golang.org/x/exp/maps":
				tail += "\nvar _ = " + name + ".Keys[map[string]struct{}]\n"
			case "context":
				tail += "\nvar _ " + name + ".Context\n"
			case "runtime":
				tail += "\nvar _ = " + name + ".NumCPU\n"
			}
		}
	}
	if tail != "" {
		w.es.insert(len(w.es.src), tail)
	}
	if w.needHook {
		w.es.insert(w.off(w.file.Name.End()), `; import verifhook "`+w.hookPath+`"`)
	}
}

func (w *genWalker) rewriteRange(r *ast.RangeStmt, m *types.Map, stack []ast.Node, fn string) {
	keyT := m.Key().String()
	identOrBlank := func(e ast.Expr) (string, bool) {
		if e == nil {
			return "_", true
		}
		if id, ok := e.(*ast.Ident); ok {
			return id.Name, true
		}
		return "", false
	}
	k, kok := identOrBlank(r.Key)
	v, vok := identOrBlank(r.Value)
	if r.Tok == token.ASSIGN {
		// arbitrary addressable expressions: use their source text
		if r.Key != nil {
			k, kok = w.text(r.Key), true
		}
		if r.Value != nil {
			v, vok = w.text(r.Value), true
		}
	}
	if !kok || !vok {
		w.newSite(fn, "range", r.Pos(), keyT, false, "unsupported range clause shape")
		return
	}
	s := w.newSite(fn, "range", r.Pos(), keyT, true, "")
	id := s.ID
	M := fmt.Sprintf("verifM%d", id)
	K := fmt.Sprintf("verifK%d", id)
	V := fmt.Sprintf("verifV%d", id)
	OK := fmt.Sprintf("verifOK%d", id)

	start := r.Pos()
	label := ""
	if len(stack) >= 2 {
		if ls, ok := stack[len(stack)-2].(*ast.LabeledStmt); ok && ls.Stmt == r {
			start = ls.Pos()
			label = ls.Label.Name + ": "
		}
	}
	w.es.replace(w.off(start), w.off(r.X.Pos()), "{ "+M+" := ")
	var pre, in string
	switch r.Tok {
	case token.DEFINE:
		if w.perIter {
			if k != "_" {
				in += k + " := " + K + "; "
			}
			if v != "_" {
				in += v + " := " + V + "; "
			}
		} else {
			if k != "_" || v != "_" {
				pre = "; " + k + ", " + v + " := verifhook.ZeroKV(" + M + ")"
			}
			if k != "_" {
				in += k + " = " + K + "; "
			}
			if v != "_" {
				in += v + " = " + V + "; "
			}
		}
	case token.ASSIGN:
		if k != "_" {
			in += k + " = " + K + "; "
		}
		if v != "_" {
			in += v + " = " + V + "; "
		}
	}
	hdr := pre + "; " + label + "for _, " + K + " := range verifhook.Keys(" + strconv.Itoa(id) + ", " + M + ") { " +
		V + ", " + OK + " := " + M + "[" + K + "]; if !" + OK + " { continue }; _ = " + V + "; " + in
	w.es.replace(w.off(r.X.End()), w.off(r.Body.Lbrace)+1, hdr)
	w.es.insert(w.off(r.Body.Rbrace)+1, " }")
	w.needHook = true
}

// RewriteDependency routes the map iterations of a copied dependency (its own module rooted at dir) through the
// same hook, so that the order in which e.g. the OpenAPI loader walks its maps comes off the tape as well.
// Only range-over-map statements and x/exp maps.Keys/Values calls are rewritten; site keys get the given prefix.
func RewriteDependency(dir, pattern, prefix string, startID int) ([]Site, error) {
	pkgs, err := loadPkgs(dir, pattern)
	if err != nil {
		return nil, err
	}
	rep := &GenReport{}
	nextID := startID
	for _, pkg := range pkgs {
		perIter := pkg.Module != nil && goVersionAtLeast(pkg.Module.GoVersion, 1, 22)
		files := append([]*ast.File(nil), pkg.Syntax...)
		sort.Slice(files, func(i, j int) bool {
			return pkg.Fset.Position(files[i].Pos()).Filename < pkg.Fset.Position(files[j].Pos()).Filename
		})
		for _, f := range files {
			fn := pkg.Fset.Position(f.Pos()).Filename
			if !strings.HasSuffix(fn, ".go") || strings.HasSuffix(fn, "_test.go") || !strings.HasPrefix(fn, dir) {
				continue
			}
			rel, _ := filepath.Rel(dir, fn)
			src, err := os.ReadFile(fn)
			if err != nil {
				return nil, err
			}
			es := &editSet{src: src}
			w := &genWalker{pkg: pkg, file: f, rel: prefix + rel, es: es, rep: rep, nextID: &nextID, perIter: perIter, hookPath: RTBase + "/verifhook"}
			w.runRangesOnly()
			if !w.needHook {
				continue
			}
			es.insert(w.off(f.Name.End()), `; import verifhook "`+w.hookPath+`"`)
			out, err := es.apply()
			if err != nil {
				return nil, fmt.Errorf("%s: %w", rel, err)
			}
			if err := os.WriteFile(fn, out, 0o644); err != nil {
				return nil, err
			}
		}
	}
	return rep.Sites, nil
}
