package instr

import (
	"go/ast"
	"go/token"
	"go/types"
)

// The accesses a statement makes, by its own evaluation (nested statements report their own), to
// shared-capable locations: fields reached from a pointer variable whose element type is a struct type
// of the generated package, and the package's own package-level variables. Reported to the
// in-simulator race detector as verifhook.R / verifhook.W calls placed in front of the statement,
// which pass the pointer but never dereference it.

type rtAcc struct {
	root  string // identifier of the pointer variable, or "nil" for package-level variables
	loc   string
	write bool
}

type rtLoc struct {
	root    string
	loc     string
	typ     types.Type
	rootPtr bool // the pointer variable itself, nothing dereferenced yet
	none    bool // a lock, pool or atomic: its methods are the synchronisation, not an access
}

type accCollector struct {
	y     *rtWalker
	stPos token.Pos
	out   []rtAcc
	seen  map[rtAcc]bool
}

func (y *rtWalker) stmtAccesses(st ast.Stmt) []rtAcc {
	c := &accCollector{y: y, stPos: st.Pos(), seen: map[rtAcc]bool{}}
	c.stmt(st)
	if len(c.out) > 16 {
		c.out = c.out[:16]
	}
	return c.out
}

func (c *accCollector) add(l rtLoc, suffix string, write bool) {
	if l.none || (l.rootPtr && suffix == "" && !write) {
		return
	}
	a := rtAcc{root: l.root, loc: l.loc + suffix, write: write}
	if !c.seen[a] {
		c.seen[a] = true
		c.out = append(c.out, a)
	}
}

func (c *accCollector) stmt(st ast.Stmt) {
	switch x := st.(type) {
	case *ast.ExprStmt:
		c.read(x.X)
	case *ast.AssignStmt:
		for _, r := range x.Rhs {
			c.read(r)
		}
		for _, l := range x.Lhs {
			if x.Tok == token.DEFINE {
				if id, ok := l.(*ast.Ident); ok && c.y.w.pkg.TypesInfo.Defs[id] != nil {
					continue
				}
			}
			c.write(l, x.Tok != token.ASSIGN && x.Tok != token.DEFINE)
		}
	case *ast.IncDecStmt:
		c.write(x.X, true)
	case *ast.IfStmt:
		if x.Init != nil {
			c.stmt(x.Init)
		}
		c.read(x.Cond)
	case *ast.ForStmt:
		if x.Init != nil {
			c.stmt(x.Init)
		}
		c.read(x.Cond)
	case *ast.RangeStmt:
		c.readRanged(x.X)
	case *ast.SwitchStmt:
		if x.Init != nil {
			c.stmt(x.Init)
		}
		c.read(x.Tag)
	case *ast.TypeSwitchStmt:
		if x.Init != nil {
			c.stmt(x.Init)
		}
		c.stmt(x.Assign)
	case *ast.ReturnStmt:
		for _, r := range x.Results {
			c.read(r)
		}
	case *ast.DeferStmt:
		c.read(x.Call)
	case *ast.GoStmt:
		c.read(x.Call)
	case *ast.SendStmt:
		c.read(x.Chan)
		c.read(x.Value)
	case *ast.LabeledStmt:
		c.stmt(x.Stmt)
	case *ast.DeclStmt:
		if gd, ok := x.Decl.(*ast.GenDecl); ok {
			for _, sp := range gd.Specs {
				if vs, ok := sp.(*ast.ValueSpec); ok {
					for _, v := range vs.Values {
						c.read(v)
					}
				}
			}
		}
	}
}

func (c *accCollector) ownStruct(t types.Type) (*types.Named, *types.Struct) {
	n, ok := t.(*types.Named)
	if !ok || n.Obj().Pkg() != c.y.w.pkg.Types {
		return nil, nil
	}
	st, ok := n.Underlying().(*types.Struct)
	if !ok {
		return nil, nil
	}
	return n, st
}

func isSyncType(t types.Type) bool {
	if p, ok := t.(*types.Pointer); ok {
		t = p.Elem()
	}
	n, ok := t.(*types.Named)
	if !ok || n.Obj().Pkg() == nil {
		return false
	}
	pp := n.Obj().Pkg().Path()
	return pp == "sync" || pp == "sync/atomic"
}

// resolve maps a pure selector chain onto a location.
func (c *accCollector) resolve(e ast.Expr) (rtLoc, bool) {
	info := c.y.w.pkg.TypesInfo
	switch x := e.(type) {
	case *ast.ParenExpr:
		return c.resolve(x.X)
	case *ast.Ident:
		if x.Name == "_" {
			return rtLoc{}, false
		}
		v, ok := info.Uses[x].(*types.Var)
		if !ok || v.IsField() || v.Pkg() != c.y.w.pkg.Types {
			return rtLoc{}, false
		}
		if v.Parent() == c.y.w.pkg.Types.Scope() {
			if isSyncType(v.Type()) {
				return rtLoc{none: true}, true
			}
			return rtLoc{root: "nil", loc: "var:" + v.Name(), typ: v.Type()}, true
		}
		p, ok := v.Type().(*types.Pointer)
		if !ok || v.Pos() >= c.stPos {
			return rtLoc{}, false
		}
		n, _ := c.ownStruct(p.Elem())
		if n == nil {
			return rtLoc{}, false
		}
		return rtLoc{root: x.Name, loc: n.Obj().Name(), typ: v.Type(), rootPtr: true}, true
	case *ast.SelectorExpr:
		sel := info.Selections[x]
		if sel == nil || sel.Kind() != types.FieldVal {
			return rtLoc{}, false
		}
		b, ok := c.resolve(x.X)
		if !ok {
			return rtLoc{}, false
		}
		if b.none {
			return b, true
		}
		t := b.typ
		first := true
		for _, ix := range sel.Index() {
			if p, ok := t.(*types.Pointer); ok {
				if !(first && b.rootPtr) {
					return rtLoc{}, false // another object: not followed
				}
				t = p.Elem()
			}
			first = false
			st, ok := t.Underlying().(*types.Struct)
			if !ok || ix >= st.NumFields() {
				return rtLoc{}, false
			}
			f := st.Field(ix)
			b.loc += "." + f.Name()
			t = f.Type()
		}
		if isSyncType(t) {
			return rtLoc{none: true}, true
		}
		return rtLoc{root: b.root, loc: b.loc, typ: t}, true
	}
	return rtLoc{}, false
}

func isMapType(t types.Type) bool {
	if t == nil {
		return false
	}
	_, ok := t.Underlying().(*types.Map)
	return ok
}

func (c *accCollector) readRanged(e ast.Expr) {
	if l, ok := c.resolve(e); ok && !l.rootPtr {
		if isMapType(l.typ) {
			c.add(l, "[]", false)
		} else {
			c.add(l, "", false)
		}
		return
	}
	c.read(e)
}

func (c *accCollector) read(e ast.Expr) {
	info := c.y.w.pkg.TypesInfo
	switch x := e.(type) {
	case nil:
	case *ast.FuncLit:
	case *ast.ParenExpr:
		c.read(x.X)
	case *ast.Ident:
		if l, ok := c.resolve(x); ok {
			c.add(l, "", false)
		}
	case *ast.SelectorExpr:
		if l, ok := c.resolve(x); ok {
			c.add(l, "", false)
			return
		}
		if info.Selections[x] != nil {
			c.read(x.X)
		}
	case *ast.IndexExpr:
		if l, ok := c.resolve(x.X); ok && !l.rootPtr {
			if isMapType(l.typ) {
				c.add(l, "[]", false)
			} else {
				c.add(l, "", false)
			}
		} else {
			c.read(x.X)
		}
		c.read(x.Index)
	case *ast.IndexListExpr:
		c.read(x.X)
	case *ast.SliceExpr:
		c.read(x.X)
		c.read(x.Low)
		c.read(x.High)
		c.read(x.Max)
	case *ast.StarExpr:
		c.read(x.X)
	case *ast.TypeAssertExpr:
		c.read(x.X)
	case *ast.BinaryExpr:
		c.read(x.X)
		c.read(x.Y)
	case *ast.KeyValueExpr:
		if _, isIdent := x.Key.(*ast.Ident); !isIdent {
			c.read(x.Key)
		}
		c.read(x.Value)
	case *ast.CompositeLit:
		for _, el := range x.Elts {
			c.read(el)
		}
	case *ast.UnaryExpr:
		if x.Op == token.AND {
			c.addr(x.X)
			return
		}
		c.read(x.X)
	case *ast.CallExpr:
		c.call(x)
	}
}

// addr: taking an address is not an access to the addressed location.
func (c *accCollector) addr(e ast.Expr) {
	switch x := e.(type) {
	case *ast.ParenExpr:
		c.addr(x.X)
	case *ast.SelectorExpr:
		if _, ok := c.resolve(x); ok {
			return
		}
		if c.y.w.pkg.TypesInfo.Selections[x] != nil {
			c.read(x.X)
		}
	case *ast.IndexExpr:
		c.read(x.X)
		c.read(x.Index)
	case *ast.CompositeLit:
		c.read(x)
	}
}

func (c *accCollector) call(x *ast.CallExpr) {
	info := c.y.w.pkg.TypesInfo
	if tv, ok := info.Types[x.Fun]; ok && tv.IsType() { // conversion
		for _, a := range x.Args {
			c.read(a)
		}
		return
	}
	if id, ok := x.Fun.(*ast.Ident); ok {
		if _, isBuiltin := info.Uses[id].(*types.Builtin); isBuiltin {
			switch id.Name {
			case "delete":
				if len(x.Args) == 2 {
					if l, ok := c.resolve(x.Args[0]); ok && !l.rootPtr && isMapType(l.typ) {
						c.add(l, "[]", true)
					} else {
						c.read(x.Args[0])
					}
					c.read(x.Args[1])
				}
				return
			case "len", "cap":
				if len(x.Args) == 1 {
					c.readRanged(x.Args[0])
				}
				return
			case "clear":
				if len(x.Args) == 1 {
					if l, ok := c.resolve(x.Args[0]); ok && !l.rootPtr && isMapType(l.typ) {
						c.add(l, "[]", true)
						return
					}
				}
			}
			for _, a := range x.Args {
				c.read(a)
			}
			return
		}
	}
	if sel, ok := x.Fun.(*ast.SelectorExpr); ok {
		if s := info.Selections[sel]; s != nil && s.Kind() == types.MethodVal {
			// a method called on an addressable struct value through a pointer receiver takes its address
			skip := false
			if l, ok := c.resolve(sel.X); ok && !l.rootPtr {
				if l.none {
					skip = true
				} else if f, ok := s.Obj().(*types.Func); ok {
					if sig, ok := f.Type().(*types.Signature); ok && sig.Recv() != nil {
						_, ptrRecv := sig.Recv().Type().(*types.Pointer)
						_, isPtr := l.typ.(*types.Pointer)
						_, isIface := l.typ.Underlying().(*types.Interface)
						if ptrRecv && !isPtr && !isIface {
							skip = true
						}
					}
				}
			}
			if !skip {
				c.read(sel.X)
			}
		} else {
			c.read(x.Fun)
		}
	} else {
		c.read(x.Fun)
	}
	for _, a := range x.Args {
		c.read(a)
	}
}

func (c *accCollector) write(e ast.Expr, alsoRead bool) {
	switch x := e.(type) {
	case *ast.ParenExpr:
		c.write(x.X, alsoRead)
	case *ast.Ident, *ast.SelectorExpr:
		if l, ok := c.resolve(x); ok {
			if l.rootPtr {
				return // the local pointer variable itself
			}
			c.add(l, "", true)
			return
		}
		if sel, ok := x.(*ast.SelectorExpr); ok && c.y.w.pkg.TypesInfo.Selections[sel] != nil {
			c.read(sel.X)
		}
	case *ast.IndexExpr:
		if l, ok := c.resolve(x.X); ok && !l.rootPtr {
			if isMapType(l.typ) {
				c.add(l, "[]", true)
			} else {
				c.add(l, "", false) // element writes of slices and arrays are not tracked (disjoint indices are legal)
			}
		} else {
			c.read(x.X)
		}
		c.read(x.Index)
	case *ast.StarExpr:
		if l, ok := c.resolve(x.X); ok && l.rootPtr {
			c.add(rtLoc{root: l.root, loc: l.loc}, "", true)
			return
		}
		c.read(x.X)
	}
}
