package instr

import (
	"go/ast"
	"go/token"
	"go/types"
)

// The memory accesses a statement makes, by its own evaluation (nested statements and function literals report
// their own), to locations that more than one task can reach: whatever lies behind a package-level variable of
// the generated package, behind a pointer to one of its struct types, or behind a variable captured by a
// closure - followed through further fields, pointers, slice/array elements and map elements. They are reported
// to the in-simulator race detector as verifhook.RA / WA (address of an addressable operand) and RM / WM (a map
// and its elements) calls placed in front of the statement. The operand is evaluated inside a closure under
// recover, so a nil pointer or an index out of range on the way to it is harmless (the statement itself will
// run into it next). Only pure operands are reported (identifiers, selectors, dereferences, indexing by pure
// operands or literals): evaluating them early has no effect and gives the address the statement will use.
// Operands on the right of && and || are not reported (they may not be evaluated).

type rtAcc struct {
	expr  string // source text of the operand (addressable), or of the map
	label string
	write bool
	isMap bool
}

type accCollector struct {
	y     *rtWalker
	stPos token.Pos
	encl  *ast.FuncLit // innermost function literal around the statement (nil: a declared function)
	out   []rtAcc
	seen  map[rtAcc]bool
}

func (y *rtWalker) stmtAccesses(st ast.Stmt, encl *ast.FuncLit) []rtAcc {
	c := &accCollector{y: y, stPos: st.Pos(), encl: encl, seen: map[rtAcc]bool{}}
	c.stmt(st)
	if len(c.out) > 16 {
		c.out = c.out[:16]
	}
	return c.out
}

func (c *accCollector) info() *types.Info { return c.y.w.pkg.TypesInfo }

func (c *accCollector) add(a rtAcc) {
	if !c.seen[a] {
		c.seen[a] = true
		c.out = append(c.out, a)
	}
}

func (c *accCollector) stmt(st ast.Stmt) {
	switch x := st.(type) {
	case *ast.ExprStmt:
		c.load(x.X)
	case *ast.AssignStmt:
		for _, r := range x.Rhs {
			c.load(r)
		}
		for _, l := range x.Lhs {
			if x.Tok == token.DEFINE {
				if id, ok := l.(*ast.Ident); ok && c.info().Defs[id] != nil {
					continue
				}
			}
			c.store(l, x.Tok != token.ASSIGN && x.Tok != token.DEFINE)
		}
	case *ast.IncDecStmt:
		c.store(x.X, true)
	case *ast.IfStmt:
		if x.Init != nil {
			c.stmt(x.Init)
		}
		c.load(x.Cond)
	case *ast.ForStmt:
		if x.Init != nil {
			c.stmt(x.Init)
		}
		c.load(x.Cond)
	case *ast.RangeStmt:
		c.loadAll(x.X)
	case *ast.SwitchStmt:
		if x.Init != nil {
			c.stmt(x.Init)
		}
		c.load(x.Tag)
	case *ast.TypeSwitchStmt:
		if x.Init != nil {
			c.stmt(x.Init)
		}
		c.stmt(x.Assign)
	case *ast.ReturnStmt:
		for _, r := range x.Results {
			c.load(r)
		}
	case *ast.DeferStmt:
		c.load(x.Call)
	case *ast.GoStmt:
		c.load(x.Call)
	case *ast.SendStmt:
		c.load(x.Chan)
		c.load(x.Value)
	case *ast.LabeledStmt:
		c.stmt(x.Stmt)
	case *ast.DeclStmt:
		if gd, ok := x.Decl.(*ast.GenDecl); ok {
			for _, sp := range gd.Specs {
				if vs, ok := sp.(*ast.ValueSpec); ok {
					for _, v := range vs.Values {
						c.load(v)
					}
				}
			}
		}
	}
}

func (c *accCollector) ownStruct(t types.Type) *types.Named {
	n, ok := t.(*types.Named)
	if !ok || n.Obj().Pkg() != c.y.w.pkg.Types {
		return nil
	}
	if _, ok := n.Underlying().(*types.Struct); !ok {
		return nil
	}
	return n
}

func isSyncType(t types.Type) bool {
	if t == nil {
		return false
	}
	if p, ok := t.(*types.Pointer); ok {
		t = p.Elem()
	}
	n, ok := t.(*types.Named)
	if !ok || n.Obj().Pkg() == nil {
		return false
	}
	pp := n.Obj().Pkg().Path()
	return pp == "sync" || pp == "sync/atomic"
}

func isMapType(t types.Type) bool {
	if t == nil {
		return false
	}
	_, ok := t.Underlying().(*types.Map)
	return ok
}

// operand describes a pure operand.
type operand struct {
	pure   bool
	shared bool   // some hop on the way can be reached by more than one task
	label  string // stable, type based name of the location
	sync   bool   // a lock, pool or atomic (or something inside one): its methods are the synchronisation
	typ    types.Type
}

// classify walks a pure operand chain.
func (c *accCollector) classify(e ast.Expr) operand {
	info := c.info()
	switch x := e.(type) {
	case *ast.ParenExpr:
		return c.classify(x.X)
	case *ast.BasicLit:
		return operand{pure: true}
	case *ast.Ident:
		if x.Name == "_" {
			return operand{}
		}
		switch o := info.Uses[x].(type) {
		case *types.Const, *types.Nil:
			return operand{pure: true}
		case *types.Var:
			if o.IsField() {
				return operand{}
			}
			op := operand{pure: true, typ: o.Type(), label: o.Name(), sync: isSyncType(o.Type())}
			switch {
			case o.Pkg() == c.y.w.pkg.Types && o.Parent() == c.y.w.pkg.Types.Scope():
				op.shared, op.label = true, "var:"+o.Name()
			case o.Parent() == nil || o.Pkg() != c.y.w.pkg.Types:
				return operand{} // variable of another package
			case o.Pos() >= c.stPos:
				return operand{} // declared by the statement itself: not in scope in front of it
			case c.encl != nil && o.Pos() < c.encl.Pos():
				op.shared, op.label = true, "captured:"+o.Name()
			}
			return op
		}
		return operand{}
	case *ast.SelectorExpr:
		sel := info.Selections[x]
		if sel == nil || sel.Kind() != types.FieldVal {
			return operand{}
		}
		b := c.classify(x.X)
		if !b.pure {
			return operand{}
		}
		t := b.typ
		for _, ix := range sel.Index() {
			if p, ok := t.Underlying().(*types.Pointer); ok {
				if n := c.ownStruct(p.Elem()); n != nil {
					b.shared = true
				}
				t = p.Elem()
			}
			st, ok := t.Underlying().(*types.Struct)
			if !ok || ix >= st.NumFields() {
				return operand{}
			}
			if n, ok := t.(*types.Named); ok {
				b.label = n.Obj().Name()
			}
			f := st.Field(ix)
			b.label += "." + f.Name()
			t = f.Type()
			if isSyncType(t) {
				b.sync = true
			}
		}
		b.typ = t
		return b
	case *ast.StarExpr:
		b := c.classify(x.X)
		if !b.pure {
			return operand{}
		}
		p, ok := b.typ.Underlying().(*types.Pointer)
		if !ok {
			return operand{}
		}
		if n := c.ownStruct(p.Elem()); n != nil {
			b.shared, b.label = true, n.Obj().Name()
		} else {
			b.label = "*" + b.label
		}
		b.typ = p.Elem()
		return b
	case *ast.IndexExpr:
		b := c.classify(x.X)
		if !b.pure || b.typ == nil {
			return operand{}
		}
		if i := c.classify(x.Index); !i.pure {
			return operand{}
		}
		switch u := b.typ.Underlying().(type) {
		case *types.Slice:
			b.typ, b.label = u.Elem(), b.label+"[i]"
		case *types.Array:
			b.typ, b.label = u.Elem(), b.label+"[i]"
		case *types.Pointer:
			if a, ok := u.Elem().Underlying().(*types.Array); ok {
				b.typ, b.label = a.Elem(), b.label+"[i]"
			} else {
				return operand{}
			}
		case *types.Map:
			b.typ, b.label = u.Elem(), b.label+"[]"
		default:
			return operand{}
		}
		return b
	}
	return operand{}
}

func (c *accCollector) addressable(e ast.Expr) bool {
	tv, ok := c.info().Types[e]
	return ok && tv.Addressable()
}

func (c *accCollector) text(e ast.Expr) string { return c.y.w.text(e) }

// derefs reports the loads an operand chain performs on its way: every pointer, slice or map that is followed.
func (c *accCollector) derefs(e ast.Expr) {
	switch x := e.(type) {
	case *ast.ParenExpr:
		c.derefs(x.X)
	case *ast.SelectorExpr:
		if sel := c.info().Selections[x]; sel != nil && sel.Kind() == types.FieldVal {
			if _, isPtr := c.info().TypeOf(x.X).Underlying().(*types.Pointer); isPtr {
				c.access(x.X, false)
			}
			c.derefs(x.X)
		}
	case *ast.StarExpr:
		c.access(x.X, false)
		c.derefs(x.X)
	case *ast.IndexExpr:
		switch c.info().TypeOf(x.X).Underlying().(type) {
		case *types.Slice, *types.Pointer, *types.Map:
			c.access(x.X, false)
		}
		c.derefs(x.X)
		c.load(x.Index)
	}
}

// access reports one read or write of the operand e itself (not of what it is reached through).
func (c *accCollector) access(e ast.Expr, write bool) bool {
	for {
		p, ok := e.(*ast.ParenExpr)
		if !ok {
			break
		}
		e = p.X
	}
	op := c.classify(e)
	if !op.pure || !op.shared || op.sync {
		return op.pure
	}
	if ix, ok := e.(*ast.IndexExpr); ok {
		if isMapType(c.info().TypeOf(ix.X)) {
			c.add(rtAcc{expr: c.text(ix.X), label: op.label, write: write, isMap: true})
			return true
		}
	}
	if !c.addressable(e) {
		return true
	}
	c.add(rtAcc{expr: c.text(e), label: op.label, write: write})
	return true
}

// loadAll: the operand and, for a map, its elements (range, len).
func (c *accCollector) loadAll(e ast.Expr) {
	c.load(e)
	if isMapType(c.info().TypeOf(e)) {
		if op := c.classify(e); op.pure && op.shared && !op.sync {
			c.add(rtAcc{expr: c.text(e), label: op.label + "[]", isMap: true})
		}
	}
}

func (c *accCollector) load(e ast.Expr) {
	info := c.info()
	switch x := e.(type) {
	case nil:
	case *ast.FuncLit:
	case *ast.ParenExpr:
		c.load(x.X)
	case *ast.Ident, *ast.SelectorExpr, *ast.StarExpr, *ast.IndexExpr:
		if op := c.classify(x); op.pure {
			if op.sync {
				return
			}
			c.access(x, false)
			c.derefs(x)
			return
		}
		switch y := x.(type) {
		case *ast.SelectorExpr:
			if info.Selections[y] != nil {
				c.load(y.X)
			}
		case *ast.StarExpr:
			c.load(y.X)
		case *ast.IndexExpr:
			c.load(y.X)
			c.load(y.Index)
		}
	case *ast.IndexListExpr:
		c.load(x.X)
	case *ast.SliceExpr:
		c.load(x.X)
		c.load(x.Low)
		c.load(x.High)
		c.load(x.Max)
	case *ast.TypeAssertExpr:
		c.load(x.X)
	case *ast.BinaryExpr:
		c.load(x.X)
		if x.Op != token.LAND && x.Op != token.LOR {
			c.load(x.Y)
		}
	case *ast.KeyValueExpr:
		if _, isIdent := x.Key.(*ast.Ident); !isIdent {
			c.load(x.Key)
		}
		c.load(x.Value)
	case *ast.CompositeLit:
		for _, el := range x.Elts {
			c.load(el)
		}
	case *ast.UnaryExpr:
		if x.Op == token.AND {
			c.addr(x.X)
			return
		}
		c.load(x.X)
	case *ast.CallExpr:
		c.call(x)
	}
}

// addr: taking an address is not an access to the addressed location, only to what it is reached through.
func (c *accCollector) addr(e ast.Expr) {
	switch x := e.(type) {
	case *ast.ParenExpr:
		c.addr(x.X)
	case *ast.CompositeLit:
		c.load(x)
	default:
		if op := c.classify(e); op.pure {
			c.derefs(e)
		}
	}
}

func (c *accCollector) call(x *ast.CallExpr) {
	info := c.info()
	if tv, ok := info.Types[x.Fun]; ok && tv.IsType() { // conversion
		for _, a := range x.Args {
			c.load(a)
		}
		return
	}
	if id, ok := x.Fun.(*ast.Ident); ok {
		if _, isBuiltin := info.Uses[id].(*types.Builtin); isBuiltin {
			switch id.Name {
			case "delete", "clear":
				if len(x.Args) >= 1 && isMapType(info.TypeOf(x.Args[0])) {
					if op := c.classify(x.Args[0]); op.pure && op.shared && !op.sync {
						c.add(rtAcc{expr: c.text(x.Args[0]), label: op.label + "[]", write: true, isMap: true})
					}
				}
				for _, a := range x.Args {
					c.load(a)
				}
				return
			case "len", "cap":
				if len(x.Args) == 1 {
					c.loadAll(x.Args[0])
				}
				return
			}
			for _, a := range x.Args {
				c.load(a)
			}
			return
		}
	}
	if sel, ok := x.Fun.(*ast.SelectorExpr); ok {
		if s := info.Selections[sel]; s != nil && s.Kind() == types.MethodVal {
			// a method called through a pointer receiver on an addressable value takes its address
			op := c.classify(sel.X)
			switch {
			case op.pure && op.sync:
			case op.pure:
				byAddr := false
				if f, ok := s.Obj().(*types.Func); ok {
					if sig, ok := f.Type().(*types.Signature); ok && sig.Recv() != nil {
						_, ptrRecv := sig.Recv().Type().(*types.Pointer)
						_, isPtr := op.typ.Underlying().(*types.Pointer)
						_, isIface := op.typ.Underlying().(*types.Interface)
						byAddr = ptrRecv && !isPtr && !isIface
					}
				}
				if byAddr {
					c.derefs(sel.X)
				} else {
					c.load(sel.X)
				}
			default:
				c.load(sel.X)
			}
		} else {
			c.load(x.Fun)
		}
	} else {
		c.load(x.Fun)
	}
	for _, a := range x.Args {
		c.load(a)
	}
}

func (c *accCollector) store(e ast.Expr, alsoRead bool) {
	for {
		p, ok := e.(*ast.ParenExpr)
		if !ok {
			break
		}
		e = p.X
	}
	if id, ok := e.(*ast.Ident); ok && id.Name == "_" {
		return
	}
	op := c.classify(e)
	if !op.pure {
		switch y := e.(type) {
		case *ast.SelectorExpr:
			if c.info().Selections[y] != nil {
				c.load(y.X)
			}
		case *ast.StarExpr:
			c.load(y.X)
		case *ast.IndexExpr:
			c.load(y.X)
			c.load(y.Index)
		}
		return
	}
	if op.sync {
		return
	}
	c.access(e, true)
	if alsoRead {
		c.access(e, false)
	}
	c.derefs(e)
}
