package instr

import (
	"fmt"
	"go/ast"
	"go/token"
	"go/types"
)

// Goroutines, channels and locks of the system under simulation itself: `go` statements become tasks of the
// tape-driven scheduler in verifhook (gosched.go) and every statement that may block on another goroutine is
// bracketed with Pre()/Post(). All edits are insertions or replace a keyword / parenthesis, so they never overlap
// the other rewrites inside the same statement.

// concList instruments the statements of one statement list.
func (w *genWalker) concList(list []ast.Stmt) {
	for _, st := range list {
		w.concStmt(st)
	}
}

func (w *genWalker) isBlockingSyncCall(e ast.Expr) bool {
	call, ok := e.(*ast.CallExpr)
	if !ok {
		return false
	}
	sel, ok := call.Fun.(*ast.SelectorExpr)
	if !ok {
		return false
	}
	s := w.pkg.TypesInfo.Selections[sel]
	if s == nil || s.Kind() != types.MethodVal {
		return false
	}
	f, ok := s.Obj().(*types.Func)
	if !ok || f.Pkg() == nil || f.Pkg().Path() != "sync" {
		return false
	}
	switch f.Name() {
	case "Lock", "RLock", "Wait", "Do":
		return true
	}
	return false
}

func isRecv(e ast.Expr) bool {
	for {
		p, ok := e.(*ast.ParenExpr)
		if !ok {
			break
		}
		e = p.X
	}
	u, ok := e.(*ast.UnaryExpr)
	return ok && u.Op == token.ARROW
}

func pureOperand(e ast.Expr) bool {
	switch x := e.(type) {
	case *ast.Ident:
		return true
	case *ast.SelectorExpr:
		return pureOperand(x.X)
	case *ast.ParenExpr:
		return pureOperand(x.X)
	}
	return false
}

// countBlocking counts channel receives and blocking sync calls below n (function literals excluded).
func (w *genWalker) countBlocking(n ast.Node) int {
	c := 0
	ast.Inspect(n, func(m ast.Node) bool {
		switch x := m.(type) {
		case *ast.FuncLit:
			return false
		case *ast.UnaryExpr:
			if x.Op == token.ARROW {
				c++
			}
		case *ast.CallExpr:
			if w.isBlockingSyncCall(x) {
				c++
			}
		}
		return true
	})
	return c
}

func (w *genWalker) bracket(st ast.Stmt) {
	w.es.insert(w.off(st.Pos()), "verifhook.Pre(); ")
	w.es.insert(w.off(st.End()), "; verifhook.Post()")
	w.needHook = true
	w.rep.SyncBracketed++
}

func (w *genWalker) unmodelled(pos token.Pos, what string) {
	w.rep.SyncUnmodelled = append(w.rep.SyncUnmodelled, fmt.Sprintf("%s:%d %s", w.rel, w.pkg.Fset.Position(pos).Line, what))
}

func (w *genWalker) concStmt(st ast.Stmt) {
	info := w.pkg.TypesInfo
	switch x := st.(type) {
	case *ast.LabeledStmt:
		// a label must stay attached to its statement: only the inner statement's own insertions apply
		switch x.Stmt.(type) {
		case *ast.ForStmt, *ast.RangeStmt, *ast.SelectStmt, *ast.SwitchStmt, *ast.TypeSwitchStmt:
			if rs, ok := x.Stmt.(*ast.RangeStmt); ok {
				if _, isChan := info.TypeOf(rs.X).Underlying().(*types.Chan); isChan {
					w.unmodelled(x.Pos(), "labelled range over a channel")
				}
			}
			if _, ok := x.Stmt.(*ast.SelectStmt); ok {
				w.unmodelled(x.Pos(), "labelled select")
			}
		default:
			if w.countBlocking(x.Stmt) > 0 {
				w.unmodelled(x.Pos(), "labelled blocking statement")
			}
		}
	case *ast.GoStmt:
		call := x.Call
		if tv, ok := info.Types[call.Fun]; ok && (tv.IsType() || tv.IsBuiltin()) {
			w.unmodelled(x.Pos(), "go statement on a builtin or conversion")
			return
		}
		if call.Ellipsis.IsValid() {
			w.unmodelled(x.Pos(), "go statement with a variadic spread")
			return
		}
		// go f(a, b)  ->  verifhook.Spawn(); go verifhook.Run(f, a, b); verifhook.Spawned()
		w.es.replace(w.off(x.Go), w.off(x.Go)+2, "verifhook.Spawn(); go verifhook.Run(")
		sep := ", "
		if len(call.Args) == 0 {
			sep = ""
		}
		w.es.replace(w.off(call.Lparen), w.off(call.Lparen)+1, sep)
		w.es.insert(w.off(x.End()), "; verifhook.Spawned()")
		w.needHook = true
		w.rep.GoRewritten++
	case *ast.SendStmt:
		w.bracket(st)
	case *ast.ExprStmt:
		if isRecv(x.X) || w.isBlockingSyncCall(x.X) {
			if w.countBlocking(x.X) > 1 {
				w.unmodelled(x.Pos(), "statement with more than one blocking operation")
			}
			w.bracket(st)
		} else if w.countBlocking(x.X) > 0 {
			w.unmodelled(x.Pos(), "blocking operation nested in an expression")
		}
	case *ast.AssignStmt:
		if len(x.Rhs) == 1 && isRecv(x.Rhs[0]) && w.countBlocking(x) == 1 {
			w.bracket(st)
		} else if w.countBlocking(x) > 0 {
			w.unmodelled(x.Pos(), "blocking operation nested in an assignment")
		}
	case *ast.DeclStmt:
		if w.countBlocking(x) > 0 {
			w.bracket(st)
		}
	case *ast.RangeStmt:
		ch, isChan := info.TypeOf(x.X).Underlying().(*types.Chan)
		if !isChan {
			return
		}
		_ = ch
		if !pureOperand(x.X) {
			w.unmodelled(x.Pos(), "range over a channel-valued expression with side effects")
			return
		}
		chText := w.text(x.X)
		var recv string
		switch {
		case x.Key == nil:
			recv = "_, verifOk := <-" + chText
		case x.Tok == token.DEFINE:
			recv = w.text(x.Key) + ", verifOk := <-" + chText
		default:
			recv = "var verifOk bool; " + w.text(x.Key) + ", verifOk = <-" + chText
		}
		w.es.replace(w.off(x.For), w.off(x.Body.Lbrace)+1, "for { verifhook.Pre(); "+recv+"; verifhook.Post(); if !verifOk { break };")
		w.needHook = true
		w.rep.SyncBracketed++
	case *ast.SelectStmt:
		w.es.insert(w.off(x.Pos()), "verifhook.Pre(); ")
		for _, cl := range x.Body.List {
			if cc, ok := cl.(*ast.CommClause); ok {
				w.es.insert(w.off(cc.Colon)+1, " verifhook.Post();")
			}
		}
		if len(x.Body.List) == 0 {
			w.es.insert(w.off(x.End()), "; verifhook.Post()")
		}
		w.needHook = true
		w.rep.SyncBracketed++
	case *ast.IfStmt:
		if (x.Init != nil && w.countBlocking(x.Init) > 0) || w.countBlocking(x.Cond) > 0 {
			w.unmodelled(x.Pos(), "blocking operation in an if header")
		}
	case *ast.ForStmt:
		n := 0
		if x.Init != nil {
			n += w.countBlocking(x.Init)
		}
		if x.Cond != nil {
			n += w.countBlocking(x.Cond)
		}
		if x.Post != nil {
			n += w.countBlocking(x.Post)
		}
		if n > 0 {
			w.unmodelled(x.Pos(), "blocking operation in a for header")
		}
	case *ast.SwitchStmt:
		if (x.Init != nil && w.countBlocking(x.Init) > 0) || (x.Tag != nil && w.countBlocking(x.Tag) > 0) {
			w.unmodelled(x.Pos(), "blocking operation in a switch header")
		}
	case *ast.ReturnStmt:
		if w.countBlocking(x) > 0 {
			w.unmodelled(x.Pos(), "blocking operation in a return statement")
		}
	case *ast.DeferStmt:
		if w.isBlockingSyncCall(x.Call) {
			w.unmodelled(x.Pos(), "deferred blocking call")
		}
	}
}
