package instr

import (
	"fmt"
	"go/ast"
	"go/token"
	"go/types"
	"strings"
)

// Goroutines, channels and locks of the system under simulation itself: `go` statements become tasks of the
// tape-driven scheduler in verifhook (gosched.go) and every statement that may block on another goroutine is
// bracketed with Pre()/Post(). All edits are insertions or replace a keyword / parenthesis, so they never overlap
// the other rewrites inside the same statement.

// concList instruments the statements of one statement list.
func (w *genWalker) concList(list []ast.Stmt) {
	for _, st := range list {
		w.concStmt(st)
	}
}

func (w *genWalker) isBlockingSyncCall(e ast.Expr) bool {
	call, ok := e.(*ast.CallExpr)
	if !ok {
		return false
	}
	sel, ok := call.Fun.(*ast.SelectorExpr)
	if !ok {
		return false
	}
	s := w.pkg.TypesInfo.Selections[sel]
	if s == nil || s.Kind() != types.MethodVal {
		return false
	}
	f, ok := s.Obj().(*types.Func)
	if !ok || f.Pkg() == nil || f.Pkg().Path() != "sync" {
		return false
	}
	switch f.Name() {
	case "Lock", "RLock":
		return !w.rtMode // rtsim replaces mutexes by simulated ones
	case "Wait", "Do":
		return true
	}
	return false
}

func isRecv(e ast.Expr) bool {
	for {
		p, ok := e.(*ast.ParenExpr)
		if !ok {
			break
		}
		e = p.X
	}
	u, ok := e.(*ast.UnaryExpr)
	return ok && u.Op == token.ARROW
}

func pureOperand(e ast.Expr) bool {
	switch x := e.(type) {
	case *ast.Ident:
		return true
	case *ast.SelectorExpr:
		return pureOperand(x.X)
	case *ast.ParenExpr:
		return pureOperand(x.X)
	}
	return false
}

// countBlocking counts channel receives and blocking sync calls below n (function literals excluded).
func (w *genWalker) countBlocking(n ast.Node) int {
	c := 0
	ast.Inspect(n, func(m ast.Node) bool {
		switch x := m.(type) {
		case *ast.FuncLit:
			return false
		case *ast.UnaryExpr:
			if x.Op == token.ARROW {
				c++
			}
		case *ast.CallExpr:
			if w.isBlockingSyncCall(x) {
				c++
			}
		}
		return true
	})
	return c
}

func (w *genWalker) bracket(st ast.Stmt) {
	w.es.insert(w.off(st.Pos()), "verifhook.Pre(); ")
	w.es.insert(w.off(st.End()), "; verifhook.Post()")
	w.needHook = true
	w.rep.SyncBracketed++
}

func (w *genWalker) unmodelled(pos token.Pos, what string) {
	w.rep.SyncUnmodelled = append(w.rep.SyncUnmodelled, fmt.Sprintf("%s:%d %s", w.rel, w.pkg.Fset.Position(pos).Line, what))
}

func (w *genWalker) concStmt(st ast.Stmt) {
	info := w.pkg.TypesInfo
	switch x := st.(type) {
	case *ast.LabeledStmt:
		// a label must stay attached to its statement: only the inner statement's own insertions apply
		switch x.Stmt.(type) {
		case *ast.ForStmt, *ast.RangeStmt, *ast.SelectStmt, *ast.SwitchStmt, *ast.TypeSwitchStmt:
			if rs, ok := x.Stmt.(*ast.RangeStmt); ok {
				if _, isChan := info.TypeOf(rs.X).Underlying().(*types.Chan); isChan {
					w.unmodelled(x.Pos(), "labelled range over a channel")
				}
			}
			if _, ok := x.Stmt.(*ast.SelectStmt); ok {
				w.unmodelled(x.Pos(), "labelled select")
			}
		default:
			if w.countBlocking(x.Stmt) > 0 {
				w.unmodelled(x.Pos(), "labelled blocking statement")
			}
		}
	case *ast.GoStmt:
		call := x.Call
		if tv, ok := info.Types[call.Fun]; ok && (tv.IsType() || tv.IsBuiltin()) {
			w.unmodelled(x.Pos(), "go statement on a builtin or conversion")
			return
		}
		if call.Ellipsis.IsValid() {
			w.unmodelled(x.Pos(), "go statement with a variadic spread")
			return
		}
		sep := ", "
		if len(call.Args) == 0 {
			sep = ""
		}
		if w.rtMode {
			// go f(a, b)  ->  verifhook.GoRun(f, a, b): a task of rtsim's scheduler
			w.es.replace(w.off(x.Go), w.off(x.Go)+2, "verifhook.GoRun(")
			w.es.replace(w.off(call.Lparen), w.off(call.Lparen)+1, sep)
		} else {
			// go f(a, b)  ->  verifhook.Spawn(); go verifhook.Run(f, a, b); verifhook.Spawned()
			w.es.replace(w.off(x.Go), w.off(x.Go)+2, "verifhook.Spawn(); go verifhook.Run(")
			w.es.replace(w.off(call.Lparen), w.off(call.Lparen)+1, sep)
			w.es.insert(w.off(x.End()), "; verifhook.Spawned()")
		}
		w.needHook = true
		w.rep.GoRewritten++
	case *ast.SendStmt:
		w.bracket(st)
	case *ast.ExprStmt:
		if w.rtMode && w.isWakingCall(x.X) {
			w.es.insert(w.off(x.End()), "; verifhook.Woke()")
			w.needHook = true
		}
		if isRecv(x.X) || w.isBlockingSyncCall(x.X) {
			if w.countBlocking(x.X) > 1 {
				w.unmodelled(x.Pos(), "statement with more than one blocking operation")
			}
			w.bracket(st)
		} else if w.countBlocking(x.X) > 0 {
			w.unmodelled(x.Pos(), "blocking operation nested in an expression")
		}
	case *ast.AssignStmt:
		if len(x.Rhs) == 1 && isRecv(x.Rhs[0]) && w.countBlocking(x) == 1 {
			w.bracket(st)
		} else if w.countBlocking(x) > 0 {
			w.unmodelled(x.Pos(), "blocking operation nested in an assignment")
		}
	case *ast.DeclStmt:
		if w.countBlocking(x) > 0 {
			w.bracket(st)
		}
	case *ast.RangeStmt:
		ch, isChan := info.TypeOf(x.X).Underlying().(*types.Chan)
		if !isChan {
			return
		}
		_ = ch
		if !pureOperand(x.X) {
			w.unmodelled(x.Pos(), "range over a channel-valued expression with side effects")
			return
		}
		chText := w.text(x.X)
		var recv string
		switch {
		case x.Key == nil:
			recv = "_, verifOk := <-" + chText
		case x.Tok == token.DEFINE:
			recv = w.text(x.Key) + ", verifOk := <-" + chText
		default:
			recv = "var verifOk bool; " + w.text(x.Key) + ", verifOk = <-" + chText
		}
		w.es.replace(w.off(x.For), w.off(x.Body.Lbrace)+1, "for { verifhook.Pre(); "+recv+"; verifhook.Post(); if !verifOk { break };")
		w.needHook = true
		w.rep.SyncBracketed++
	case *ast.SelectStmt:
		w.rewriteSelect(x)
	case *ast.IfStmt:
		if (x.Init != nil && w.countBlocking(x.Init) > 0) || w.countBlocking(x.Cond) > 0 {
			w.unmodelled(x.Pos(), "blocking operation in an if header")
		}
	case *ast.ForStmt:
		n := 0
		if x.Init != nil {
			n += w.countBlocking(x.Init)
		}
		if x.Cond != nil {
			n += w.countBlocking(x.Cond)
		}
		if x.Post != nil {
			n += w.countBlocking(x.Post)
		}
		if n > 0 {
			w.unmodelled(x.Pos(), "blocking operation in a for header")
		}
	case *ast.SwitchStmt:
		if (x.Init != nil && w.countBlocking(x.Init) > 0) || (x.Tag != nil && w.countBlocking(x.Tag) > 0) {
			w.unmodelled(x.Pos(), "blocking operation in a switch header")
		}
	case *ast.ReturnStmt:
		if w.countBlocking(x) > 0 {
			w.unmodelled(x.Pos(), "blocking operation in a return statement")
		}
	case *ast.DeferStmt:
		if w.isBlockingSyncCall(x.Call) {
			w.unmodelled(x.Pos(), "deferred blocking call")
		}
		if w.rtMode && w.isWakingCall(x.Call) {
			// defers run last-in first-out: registered first, Woke() runs right after the deferred call
			w.es.insert(w.off(x.Pos()), "defer verifhook.Woke(); ")
			w.needHook = true
		}
	}
}

// rewriteSelect hands the communication of a select statement to the simulator: when several cases are ready the
// runtime would pick one at random, and that choice has to be the tape's.
//
//	select {                      { verifhook.Pre()
//	case v := <-a:                  verifI1, verifV1, verifOK1 := verifhook.Select(true, verifhook.CaseRecv(a), verifhook.CaseSend(b, x))
//	    A                           verifhook.Post(); switch verifI1 {
//	case b <- x:                  case 0: v := verifhook.Val(a, verifV1);
//	    B                             A
//	default:                      case 1:
//	    D                             B
//	}                             case -1:
//	                                  D
//	                              } }
//
// Select tries the cases one by one, non-blocking, in an order drawn from the tape; if none is ready and there is no
// default it blocks in one real select over all of them (a task blocked there is found by the goroutine dump like
// any other, and an unbuffered rendezvous with another task's poll works because this side really waits). An
// unlabelled break inside a clause leaves the switch, continue still reaches the enclosing loop. Operands must be
// pure (their text is moved); otherwise the select keeps its real form, bracketed with Pre/Post, and is listed as
// not modelled.
func (w *genWalker) rewriteSelect(x *ast.SelectStmt) {
	bracketOnly := func(why string) {
		w.es.insert(w.off(x.Pos()), "verifhook.Pre(); ")
		for _, cl := range x.Body.List {
			if cc, ok := cl.(*ast.CommClause); ok {
				w.es.insert(w.off(cc.Colon)+1, " verifhook.Post();")
			}
		}
		if len(x.Body.List) == 0 {
			w.es.insert(w.off(x.End()), "; verifhook.Post()")
		}
		w.needHook = true
		w.rep.SyncBracketed++
		if why != "" {
			w.unmodelled(x.Pos(), "select kept in its real form (the runtime picks among ready cases): "+why)
		}
	}
	if len(x.Body.List) == 0 {
		bracketOnly("")
		return
	}
	n := 0
	hasDefault := false
	for _, cl := range x.Body.List {
		cc := cl.(*ast.CommClause)
		if cc.Comm == nil {
			hasDefault = true
			continue
		}
		n++
		var operands []ast.Expr
		switch c := cc.Comm.(type) {
		case *ast.SendStmt:
			operands = []ast.Expr{c.Chan, c.Value}
		case *ast.ExprStmt:
			if u, ok := c.X.(*ast.UnaryExpr); ok && u.Op == token.ARROW {
				operands = []ast.Expr{u.X}
			}
		case *ast.AssignStmt:
			if len(c.Rhs) == 1 {
				if u, ok := c.Rhs[0].(*ast.UnaryExpr); ok && u.Op == token.ARROW {
					operands = []ast.Expr{u.X}
				}
			}
			for _, l := range c.Lhs {
				if !pureOperand(l) {
					bracketOnly("assignment target with side effects")
					return
				}
			}
		}
		if operands == nil {
			bracketOnly("unrecognised communication clause")
			return
		}
		for _, o := range operands {
			if !w.selectPure(o) {
				bracketOnly("operand with side effects: " + w.text(o))
				return
			}
		}
	}
	if n == 0 {
		bracketOnly("")
		return
	}
	w.selN++
	k := fmt.Sprintf("%d", w.selN)
	var cases []string
	type bind struct{ text string }
	var binds []string
	for _, cl := range x.Body.List {
		cc := cl.(*ast.CommClause)
		if cc.Comm == nil {
			continue
		}
		idx := len(cases)
		_ = idx
		switch c := cc.Comm.(type) {
		case *ast.SendStmt:
			cases = append(cases, fmt.Sprintf("verifhook.CaseSend(%s, %s)", w.text(c.Chan), w.text(c.Value)))
			binds = append(binds, "")
		case *ast.ExprStmt:
			u := c.X.(*ast.UnaryExpr)
			cases = append(cases, fmt.Sprintf("verifhook.CaseRecv(%s)", w.text(u.X)))
			binds = append(binds, "")
		case *ast.AssignStmt:
			u := c.Rhs[0].(*ast.UnaryExpr)
			ch := w.text(u.X)
			cases = append(cases, fmt.Sprintf("verifhook.CaseRecv(%s)", ch))
			val := fmt.Sprintf("verifhook.Val(%s, verifV%s)", ch, k)
			tok := c.Tok.String()
			if len(c.Lhs) == 2 {
				binds = append(binds, fmt.Sprintf(" %s, %s %s %s, verifOK%s;", w.text(c.Lhs[0]), w.text(c.Lhs[1]), tok, val, k))
			} else {
				binds = append(binds, fmt.Sprintf(" %s %s %s;", w.text(c.Lhs[0]), tok, val))
			}
		}
	}
	// select { ... }  ->  the simulator performs the communication (ready cases tried in tape order, otherwise a real
	// blocking select over all of them), the clauses become the arms of a switch over the chosen index
	w.es.replace(w.off(x.Select), w.off(x.Body.Lbrace)+1,
		fmt.Sprintf("{ verifhook.Pre(); verifI%s, verifV%s, verifOK%s := verifhook.Select(%v, %s); verifhook.Post(); _, _ = verifV%s, verifOK%s; switch verifI%s {",
			k, k, k, hasDefault, strings.Join(cases, ", "), k, k, k))
	idx := 0
	for _, cl := range x.Body.List {
		cc := cl.(*ast.CommClause)
		if cc.Comm == nil {
			w.es.replace(w.off(cc.Case), w.off(cc.Case)+len("default"), "case -1")
			continue
		}
		w.es.replace(w.off(cc.Case), w.off(cc.Colon)+1, fmt.Sprintf("case %d:%s", idx, binds[idx]))
		idx++
	}
	w.es.replace(w.off(x.Body.Rbrace), w.off(x.Body.Rbrace)+1, "} }")
	w.needHook = true
	w.rep.SyncBracketed++
	w.rep.SelectsPolled++
}

// selectPure: evaluating the operand once per poll instead of once per select makes no difference.
func (w *genWalker) selectPure(e ast.Expr) bool {
	switch x := e.(type) {
	case *ast.Ident, *ast.BasicLit:
		return true
	case *ast.SelectorExpr:
		return w.selectPure(x.X)
	case *ast.ParenExpr:
		return w.selectPure(x.X)
	case *ast.IndexExpr:
		return w.selectPure(x.X) && w.selectPure(x.Index)
	case *ast.StarExpr:
		return w.selectPure(x.X)
	case *ast.CompositeLit:
		for _, el := range x.Elts {
			if kv, ok := el.(*ast.KeyValueExpr); ok {
				el = kv.Value
			}
			if !w.selectPure(el) {
				return false
			}
		}
		return true
	case *ast.UnaryExpr:
		return x.Op != token.ARROW && w.selectPure(x.X)
	case *ast.BinaryExpr:
		return w.selectPure(x.X) && w.selectPure(x.Y)
	case *ast.CallExpr:
		// ctx.Done() and conversions: evaluated again per poll, harmless (time.After would make a new timer per poll)
		if sel, ok := x.Fun.(*ast.SelectorExpr); ok && len(x.Args) <= 1 {
			switch sel.Sel.Name {
			case "Done", "Context":
				for _, a := range x.Args {
					if !w.selectPure(a) {
						return false
					}
				}
				return w.selectPure(sel.X)
			}
		}
		if tv, ok := w.pkg.TypesInfo.Types[x.Fun]; ok && tv.IsType() && len(x.Args) == 1 {
			return w.selectPure(x.Args[0])
		}
	}
	return false
}

// isWakingCall: a call that does not block itself but may wake a goroutine blocked in a real operation
// (close of a channel, WaitGroup.Done/Add, Cond.Signal/Broadcast, real Unlock).
func (w *genWalker) isWakingCall(e ast.Expr) bool {
	call, ok := e.(*ast.CallExpr)
	if !ok {
		return false
	}
	if id, ok := call.Fun.(*ast.Ident); ok && id.Name == "close" {
		_, isBuiltin := w.pkg.TypesInfo.Uses[id].(*types.Builtin)
		return isBuiltin
	}
	sel, ok := call.Fun.(*ast.SelectorExpr)
	if !ok {
		return false
	}
	s := w.pkg.TypesInfo.Selections[sel]
	if s == nil || s.Kind() != types.MethodVal {
		return false
	}
	f, ok := s.Obj().(*types.Func)
	if !ok || f.Pkg() == nil || f.Pkg().Path() != "sync" {
		return false
	}
	switch f.Name() {
	case "Done", "Add", "Signal", "Broadcast":
		return true
	}
	return false
}
