// Package instr inserts simulator seams into scratch copies of Go source by
// position-based text edits (the original text, comments included, is otherwise
// left byte for byte as it was).
package instr

import (
	"fmt"
	"sort"
)

type edit struct {
	start, end int
	text       string
	seq        int
}

type editSet struct {
	src   []byte
	edits []edit
}

func (e *editSet) replace(start, end int, text string) {
	e.edits = append(e.edits, edit{start, end, text, len(e.edits)})
}
func (e *editSet) insert(at int, text string) { e.replace(at, at, text) }

// apply returns the edited source. Edits must not overlap; zero-length edits at
// the start of a replaced span are placed before it, in insertion order.
func (e *editSet) apply() ([]byte, error) {
	es := append([]edit(nil), e.edits...)
	sort.SliceStable(es, func(i, j int) bool {
		if es[i].start != es[j].start {
			return es[i].start < es[j].start
		}
		zi, zj := es[i].end == es[i].start, es[j].end == es[j].start
		if zi != zj {
			return zi // insertions first
		}
		return es[i].seq < es[j].seq
	})
	var out []byte
	pos := 0
	for _, ed := range es {
		if ed.start < pos {
			return nil, fmt.Errorf("overlapping edits at offset %d", ed.start)
		}
		out = append(out, e.src[pos:ed.start]...)
		out = append(out, ed.text...)
		pos = ed.end
	}
	out = append(out, e.src[pos:]...)
	return out, nil
}
