// Package specgen produces seeded synthetic OpenAPI documents in the dialect goag
// supports (DESIGN §3). Documents are emitted as JSON (which is YAML) with every key
// quoted, fully valid (descriptions present) so that kin-openapi's router and
// request validator accept them.
package specgen

import (
	"encoding/json"
	"fmt"
	"math/rand/v2"
	"sort"
	"strings"
)

type M = map[string]any

type gen struct {
	r          *rand.Rand
	schemas    M
	nSchema    int
	sec        []string
	compParams M // components.parameters
	compResps  M // components.responses
	compBodies M // components.requestBodies
	sharedResp []string
}

var primTypes = []M{
	{"type": "string"},
	{"type": "integer"},
	{"type": "integer", "format": "int32"},
	{"type": "integer", "format": "int64"},
	{"type": "number"},
	{"type": "number", "format": "float"},
	{"type": "number", "format": "double"},
	{"type": "boolean"},
	{"type": "string", "format": "date-time"},
}

func cp(m M) M {
	o := M{}
	for k, v := range m {
		o[k] = v
	}
	return o
}

func (g *gen) prim() M { return cp(primTypes[g.r.IntN(len(primTypes))]) }

var propNames = []string{"id", "name", "count", "ratio", "active", "created_at", "label", "size", "note", "tags", "meta", "owner", "score", "kind2", "x-id", "value"}

// object builds an object schema; depth limits nesting.
func (g *gen) object(depth int, inlineBody bool) M {
	props := M{}
	var req []string
	n := 1 + g.r.IntN(5)
	names := g.r.Perm(len(propNames))[:n]
	for _, ni := range names {
		name := propNames[ni]
		var s M
		switch k := g.r.IntN(10); {
		case k < 6:
			s = g.prim()
			// dialect: nullable only on plain strings (nullable non-string primitives do not compile today)
			if s["type"] == "string" && s["format"] == nil && g.r.IntN(4) == 0 {
				s["nullable"] = true
			}
		case k == 6 && depth < 2:
			s = g.object(depth+1, inlineBody)
		case k == 7:
			s = M{"type": "array", "items": g.prim()}
			switch g.r.IntN(6) {
			case 0:
				s = M{"type": "array", "items": M{"type": "array", "items": g.prim()}} // nested array
			case 1:
				if depth < 2 {
					s = M{"type": "object", "additionalProperties": M{"type": "array", "items": g.prim()}} // map of arrays
				}
			case 2:
				if depth < 2 {
					s = M{"type": "object", "additionalProperties": M{"$ref": g.componentObject(depth + 1)}} // map of objects
				}
			}
		case k == 8 && depth < 2:
			s = M{"$ref": g.componentObject(depth + 1)}
		default:
			s = M{"type": "array", "items": M{"type": "string"}}
		}
		props[name] = s
		if g.r.IntN(2) == 0 {
			req = append(req, name)
		}
	}
	o := M{"type": "object", "properties": props}
	if len(req) > 0 {
		sort.Strings(req)
		o["required"] = req
	}
	if g.r.IntN(4) == 0 {
		switch g.r.IntN(3) {
		case 0:
			o["additionalProperties"] = true
		case 1:
			o["additionalProperties"] = g.prim()
		case 2:
			o["additionalProperties"] = M{"type": "string"}
		}
	}
	return o
}

// componentObject adds an object schema to components and returns its $ref.
func (g *gen) componentObject(depth int) string {
	g.nSchema++
	name := fmt.Sprintf("Obj%d", g.nSchema)
	g.schemas[name] = M{} // reserve
	g.schemas[name] = g.object(depth, false)
	return "#/components/schemas/" + name
}

func (g *gen) componentOneOf() string {
	g.nSchema++
	base := fmt.Sprintf("Shape%d", g.nSchema)
	n := 2 + g.r.IntN(3)
	var refs []any
	mapping := M{}
	for i := 0; i < n; i++ {
		vn := fmt.Sprintf("%sV%d", base, i)
		key := strings.ToLower(fmt.Sprintf("v%d", i))
		o := g.object(2, false)
		props := o["properties"].(M)
		props["kind"] = M{"type": "string", "enum": []string{key}}
		req, _ := o["required"].([]string)
		has := false
		for _, r := range req {
			if r == "kind" {
				has = true
			}
		}
		if !has {
			req = append(req, "kind")
			sort.Strings(req)
		}
		o["required"] = req
		delete(o, "additionalProperties")
		g.schemas[vn] = o
		refs = append(refs, M{"$ref": "#/components/schemas/" + vn})
		mapping[key] = "#/components/schemas/" + vn
	}
	g.schemas[base] = M{"oneOf": refs, "discriminator": M{"propertyName": "kind", "mapping": mapping}}
	return "#/components/schemas/" + base
}

func (g *gen) componentAllOf() string {
	g.nSchema++
	name := fmt.Sprintf("All%d", g.nSchema)
	a := g.componentObject(2)
	// dialect: no additionalProperties on an allOf member (its siblings' properties would be
	// additional properties of that member under JSON Schema; the spec would be ambiguous or unsatisfiable)
	delete(g.schemas[a[strings.LastIndex(a, "/")+1:]].(M), "additionalProperties")
	extra := M{"type": "object", "properties": M{"extra_" + strings.ToLower(name): g.prim()}}
	g.schemas[name] = M{"allOf": []any{M{"$ref": a}, extra}}
	return "#/components/schemas/" + name
}

// componentArray adds a named array-of-objects component and returns its $ref.
func (g *gen) componentArray() string {
	g.nSchema++
	name := fmt.Sprintf("List%d", g.nSchema)
	g.schemas[name] = M{"type": "array", "items": M{"$ref": g.componentObject(1)}}
	return "#/components/schemas/" + name
}

func (g *gen) bodySchema() M {
	switch g.r.IntN(12) {
	case 10:
		return M{"$ref": g.componentArray()}
	case 11:
		return M{"type": "object", "required": []string{"rows"}, "properties": M{"rows": M{"$ref": g.componentArray()}, "total": M{"type": "integer"}}}
	case 8:
		// a top-level primitive body
		return cp([]M{{"type": "integer", "format": "int64"}, {"type": "number"}, {"type": "string"}, {"type": "boolean"}, {"type": "integer"}}[g.r.IntN(5)])
	case 9:
		return M{"type": "array", "items": M{"type": "string"}}
	case 0:
		return g.object(0, true)
	case 1:
		return M{"type": "array", "items": M{"$ref": g.componentObject(1)}}
	case 2:
		return M{"$ref": g.componentOneOf()}
	case 3:
		return M{"$ref": g.componentAllOf()}
	case 4:
		return M{"type": "array", "items": g.prim()}
	default:
		return M{"$ref": g.componentObject(0)}
	}
}

var segWords = []string{"shops", "pets", "users", "items", "orders", "v", "a-b", "x_y", "reports", "me"}
var varNames = []string{"id", "name", "shop", "pet_id", "when", "n"}
var methods = []string{"get", "post", "put", "patch", "delete", "get", "post", "head", "options"}
var queryNames = []string{"page", "limit", "q", "since", "flag", "ratio", "ids", "tags", "sort-by", "filter[x]"}

// header names are deliberately not all in canonical MIME form
var headerNames = []string{"X-Request-ID", "X-Trace", "x-count", "X-When", "X-Flag", "Accept-Language", "X-RateLimit-Ratio", "ETag-Ish"}

// Generate returns the JSON text of spec number i for the given seed plus a name.
func Generate(seed uint64, i int) (name string, text string, config string) {
	g := &gen{r: rand.New(rand.NewPCG(seed*7919+uint64(i), 0x5eed)), schemas: M{}, compParams: M{}, compResps: M{}, compBodies: M{}}
	r := g.r
	name = fmt.Sprintf("g_s%d_%02d", seed, i)
	doc := M{"openapi": "3.0.3", "info": M{"title": name, "version": "1.0.0"}}
	switch r.IntN(6) {
	case 0:
		doc["servers"] = []any{M{"url": "http://sim.local/v1"}}
	case 1:
		doc["servers"] = []any{M{"url": "/a/b"}}
	case 2:
		doc["servers"] = []any{M{"url": "https://{host}/{base}/", "variables": M{"host": M{"default": "api.example.com"}, "base": M{"default": "root/x"}}}}
	case 3:
		name += "_bpflag"
		doc["info"].(M)["title"] = name
	}
	// security
	schemes := M{}
	if r.IntN(2) == 0 {
		all := []struct {
			n string
			s M
		}{
			{"bearer", M{"type": "http", "scheme": "bearer"}},
			{"keyHeader", M{"type": "apiKey", "in": "header", "name": "X-Api-Key"}},
			{"keyQuery", M{"type": "apiKey", "in": "query", "name": "api_key"}},
		}
		for _, s := range all {
			if r.IntN(2) == 0 {
				schemes[s.n] = s.s
				g.sec = append(g.sec, s.n)
			}
		}
		// dialect: an apiKey-in-query scheme alone does not compile today (helpers are not emitted)
		if len(g.sec) == 1 && g.sec[0] == "keyQuery" {
			schemes["bearer"] = all[0].s
			g.sec = append(g.sec, "bearer")
		}
		if len(g.sec) > 0 && r.IntN(2) == 0 {
			var reqs []any
			for _, s := range g.sec {
				reqs = append(reqs, M{s: []string{}})
			}
			doc["security"] = reqs
		}
	}
	// shared components referenced from several operations
	if r.IntN(2) == 0 {
		for k := 0; k < 1+r.IntN(2); k++ {
			name := fmt.Sprintf("Problem%d", k)
			resp := M{"description": "shared " + name}
			if r.IntN(3) != 0 {
				resp["content"] = M{"application/json": M{"schema": M{"$ref": g.componentObject(1)}}}
			}
			if r.IntN(3) == 0 {
				resp["headers"] = M{"X-Trace": M{"schema": M{"type": "string"}}}
			}
			g.compResps[name] = resp
			g.sharedResp = append(g.sharedResp, name)
		}
	}
	if r.IntN(2) == 0 {
		g.compParams["PageParam"] = M{"name": "page", "in": "query", "schema": M{"type": "integer", "format": "int32"}}
		g.compParams["TraceParam"] = M{"name": "X-Trace", "in": "header", "schema": M{"type": "string"}}
	}
	// paths
	paths := M{}
	nOps := 1 + r.IntN(6)
	seen := map[string]bool{}
	// shapes that pure chance leaves out of a 30-spec corpus too often are forced into every few specs
	switch i % 5 {
	case 0:
		// two path variables declared in the reverse of their order in the template
		item := M{"get": g.operation("get", []string{"pet_id", "shop"})}
		if r.IntN(2) == 0 {
			item["put"] = g.operation("put", []string{"pet_id", "shop"})
		}
		paths["/shops/{shop}/pets/{pet_id}"] = item
		seen["/shops/{}/pets/{}"] = true
	case 1:
		// one path variable declared on the path item, the other on the operation
		op := g.operation("get", []string{"owner"})
		paths["/owners/{owner}/cars/{car}"] = M{
			"parameters": []any{M{"name": "car", "in": "path", "required": true, "schema": M{"type": "string"}}},
			"get":        op,
		}
		seen["/owners/{}/cars/{}"] = true
	}
	for len(paths) < nOps {
		depth := 1 + r.IntN(3)
		var segs []string
		var vars []string
		shape := ""
		for d := 0; d < depth; d++ {
			if r.IntN(3) == 0 && len(vars) < 2 {
				vn := varNames[r.IntN(len(varNames))]
				dup := false
				for _, v := range vars {
					if v == vn {
						dup = true
					}
				}
				if dup {
					vn = vn + "2"
				}
				vars = append(vars, vn)
				segs = append(segs, "{"+vn+"}")
				shape += "/{}"
			} else {
				w := segWords[r.IntN(len(segWords))]
				segs = append(segs, w)
				shape += "/" + w
			}
		}
		p := "/" + strings.Join(segs, "/")
		if r.IntN(8) == 0 {
			p += "/"
			shape += "/"
		}
		if seen[shape] {
			continue
		}
		seen[shape] = true
		item := M{}
		pathLevel := len(vars) > 0 && r.IntN(3) == 0 // declare the path parameters on the path item
		if pathLevel {
			var pp []any
			for _, v := range vars {
				pp = append(pp, M{"name": v, "in": "path", "required": true, "schema": M{"type": "string"}})
			}
			item["parameters"] = pp
		}
		nm := 1 + r.IntN(2)
		for k := 0; k < nm; k++ {
			m := methods[r.IntN(len(methods))]
			if _, ok := item[m]; ok {
				continue
			}
			if pathLevel {
				item[m] = g.operation(m, nil)
			} else {
				item[m] = g.operation(m, vars)
			}
		}
		paths[p] = item
	}
	doc["paths"] = paths
	comps := M{}
	if len(g.schemas) > 0 {
		comps["schemas"] = g.schemas
	}
	if len(schemes) > 0 {
		comps["securitySchemes"] = schemes
	}
	if len(g.compParams) > 0 {
		comps["parameters"] = g.compParams
	}
	if len(g.compResps) > 0 {
		comps["responses"] = g.compResps
	}
	if len(g.compBodies) > 0 {
		comps["requestBodies"] = g.compBodies
	}
	if len(comps) > 0 {
		doc["components"] = comps
	}
	b, _ := json.MarshalIndent(doc, "", " ")
	if r.IntN(3) == 0 {
		config = "cors:\n  enable: true\n"
	}
	return name, string(b), config
}

func (g *gen) operation(method string, vars []string) M {
	r := g.r
	op := M{}
	var params []any
	for _, v := range vars {
		t := M{"type": "string"}
		if r.IntN(3) == 0 {
			t = g.prim()
		}
		params = append(params, M{"name": v, "in": "path", "required": true, "schema": t})
	}
	usedPage, usedTrace, reqArray := false, false, false
	if len(g.compParams) > 0 && r.IntN(2) == 0 {
		params = append(params, M{"$ref": "#/components/parameters/PageParam"})
		usedPage = true
	}
	if len(g.compParams) > 0 && r.IntN(3) == 0 {
		params = append(params, M{"$ref": "#/components/parameters/TraceParam"})
		usedTrace = true
	}
	nq := r.IntN(4)
	for _, qi := range r.Perm(len(queryNames))[:nq] {
		if usedPage && queryNames[qi] == "page" {
			continue
		}
		var s M
		if r.IntN(4) == 0 {
			s = M{"type": "array", "items": g.prim()}
		} else {
			s = g.prim()
		}
		p := M{"name": queryNames[qi], "in": "query", "schema": s}
		if r.IntN(3) == 0 {
			// dialect: two required array query parameters in one operation do not compile today (qv := twice)
			if s["type"] != "array" || !reqArray {
				p["required"] = true
				reqArray = reqArray || s["type"] == "array"
			}
		}
		params = append(params, p)
	}
	nh := r.IntN(3)
	for _, hi := range r.Perm(len(headerNames))[:nh] {
		if usedTrace && headerNames[hi] == "X-Trace" {
			continue
		}
		p := M{"name": headerNames[hi], "in": "header", "schema": g.prim()}
		if r.IntN(3) == 0 {
			p["required"] = true
		}
		params = append(params, p)
	}
	if len(params) > 1 && r.IntN(2) == 0 {
		// the order of declaration carries no meaning: shuffle it (path parameters need not follow the template)
		r.Shuffle(len(params), func(i, j int) { params[i], params[j] = params[j], params[i] })
	}
	if len(params) > 0 {
		op["parameters"] = params
	}
	if method == "post" || method == "put" || method == "patch" {
		switch r.IntN(5) {
		case 0:
		case 1:
			op["requestBody"] = M{"required": true, "content": M{"application/octet-stream": M{"schema": M{"type": "string", "format": "binary"}}}}
		case 2:
			name := fmt.Sprintf("Body%d", len(g.compBodies))
			g.compBodies[name] = M{"required": true, "content": M{"application/json": M{"schema": M{"$ref": g.componentObject(0)}}}}
			op["requestBody"] = M{"$ref": "#/components/requestBodies/" + name}
		default:
			op["requestBody"] = M{"required": true, "content": M{"application/json": M{"schema": g.bodySchema()}}}
		}
	}
	resps := M{}
	usedShared := map[string]bool{}
	codes := []string{"200", "201", "202", "204", "400", "404", "409", "500"}
	nr := 1 + r.IntN(3)
	for _, ci := range r.Perm(len(codes))[:nr] {
		c := codes[ci]
		resp := M{"description": "response " + c}
		if c != "204" && method != "head" {
			switch r.IntN(5) {
			case 0:
			case 1:
				resp["content"] = M{"application/octet-stream": M{"schema": M{"type": "string", "format": "binary"}}}
			default:
				resp["content"] = M{"application/json": M{"schema": g.bodySchema()}}
			}
		}
		if r.IntN(3) == 0 {
			hs := M{}
			for _, hi := range r.Perm(len(headerNames))[:1+r.IntN(2)] {
				h := M{"schema": g.prim()}
				if r.IntN(4) == 0 {
					h = M{"schema": M{"type": "array", "items": g.prim()}}
				}
				if r.IntN(2) == 0 {
					h["required"] = true
				}
				hs[headerNames[hi]] = h
			}
			resp["headers"] = hs
		}
		if len(g.sharedResp) > 0 && (c == "400" || c == "404" || c == "409" || c == "500") && r.IntN(2) == 0 {
			// dialect: goag rejects one component response used for two statuses of the same operation
			name := g.sharedResp[r.IntN(len(g.sharedResp))]
			if !usedShared[name] {
				usedShared[name] = true
				resps[c] = M{"$ref": "#/components/responses/" + name}
				continue
			}
		}
		resps[c] = resp
	}
	if r.IntN(2) == 0 {
		d := M{"description": "any other status"}
		if method != "head" {
			switch r.IntN(4) {
			case 0, 1:
				d["content"] = M{"application/json": M{"schema": M{"$ref": g.componentObject(1)}}}
			case 2:
				d["content"] = M{[]string{"application/octet-stream", "text/plain"}[r.IntN(2)]: M{"schema": M{"type": "string", "format": "binary"}}}
			}
		}
		resps["default"] = d
	}
	op["responses"] = resps
	if len(g.sec) > 0 {
		switch r.IntN(4) {
		case 0:
			op["security"] = []any{}
		case 1:
			pick := g.sec[r.IntN(len(g.sec))]
			reqs := []any{M{pick: []string{}}}
			if pick == "keyQuery" {
				// dialect: a query apiKey as the only scheme in use does not compile today
				for _, o := range g.sec {
					if o != "keyQuery" {
						reqs = append(reqs, M{o: []string{}})
						break
					}
				}
			}
			op["security"] = reqs
		}
	}
	return op
}
